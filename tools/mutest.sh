#!/bin/bash
# usage: mutest.sh <patch.diff> <prop> [<prop>...]   -- applies a seeded change to /repo, runs the quick checks, reverts
set -u
patch="$1"; shift
cd /repo || exit 2
if ! git diff --quiet; then echo "repo dirty"; exit 2; fi
git apply "$patch" || { echo "patch does not apply"; exit 2; }
trap 'git -C /repo checkout -- . ' EXIT
cd /verif/harness && cargo build --release --offline 2>&1 | grep -E "^error" -A 10
for p in "$@"; do
  VERIF_SCALE=${VERIF_SCALE:-1} /verif/harness/target/release/tarpc-verif $p ${TIER:-quick} 2>&1 | grep -E "VIOLATION|^\[|^  C|INCONCL" | cut -c1-330 | head -${LINES_MAX:-8}
done
