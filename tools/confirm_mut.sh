#!/bin/bash
# usage: confirm_mut.sh <srcdir containing patch.diff demo.diff README.md> <outjson>
# Confirms a seeded change in a scratch worktree: (a) demo passes on the clean tree, (b) demo fails with
# the change, (c) the change alone compiles (default + full features) and passes the existing suite.
src="$1"; outj="$2"
name=$(echo "$src" | tr '/' '_')
wt=/tmp/cm/$name
rm -rf "$wt"; mkdir -p /tmp/cm
git -C /repo worktree add -q --detach "$wt" ${CM_BASE:-e82b159} || exit 2
cp /repo/Cargo.lock "$wt/"
cd "$wt"
export CARGO_NET_OFFLINE=true
export CARGO_TARGET_DIR=${CM_TARGET:-/tmp/cm/target0}
demo_cmd=$(grep -oE 'cargo test -p [a-z-]+ [^`]*--test [A-Za-z0-9_]+' "$src/README.md" | head -1)
[ -z "$demo_cmd" ] && demo_cmd=$(grep -oE 'cargo test[^`]*' "$src/README.md" | head -1)
res_a=unknown; res_b=unknown; res_c=unknown; build_default=unknown
git apply "$src/demo.diff" || { echo "{\"name\":\"$name\",\"error\":\"demo does not apply\"}" > "$outj"; exit 1; }
if timeout 1200 bash -c "$demo_cmd" > /tmp/cm/$name.a.log 2>&1; then res_a=pass; else res_a=fail; fi
git apply "$src/patch.diff" || { echo "{\"name\":\"$name\",\"error\":\"patch does not apply\"}" > "$outj"; exit 1; }
if timeout 1200 bash -c "$demo_cmd" > /tmp/cm/$name.b.log 2>&1; then res_b=pass; else res_b=fail; fi
# patch alone
git apply -R "$src/demo.diff"
if cargo build -p tarpc --offline > /tmp/cm/$name.bd.log 2>&1 && cargo build -p tarpc-plugins --offline >> /tmp/cm/$name.bd.log 2>&1; then build_default=ok; else build_default=fail; fi
timeout 2400 cargo test --workspace --offline --no-fail-fast -- --skip ui > /tmp/cm/$name.c.log 2>&1
failed=$(grep -E "^test .* FAILED|^test result: FAILED" /tmp/cm/$name.c.log | grep -v "compile_fail" | head -5 | tr '\n' ';' | tr '"' "'")
passed=$(grep -E "^test result: ok" /tmp/cm/$name.c.log | awk '{s+=$4} END {print s+0}')
if [ -z "$failed" ] && [ "$passed" -ge 90 ]; then res_c=pass; else res_c=fail; fi
echo "{\"name\":\"$name\",\"demo_cmd\":\"$demo_cmd\",\"demo_on_clean_tree\":\"$res_a\",\"demo_with_change\":\"$res_b\",\"build_default_features\":\"$build_default\",\"suite_with_change_alone\":\"$res_c\",\"suite_tests_passed\":$passed,\"suite_failures\":\"$failed\"}" > "$outj"
cd /; git -C /repo worktree remove --force "$wt"
