#!/usr/bin/env python3
"""Turns the output of tools/matrix.sh into DESIGN.md section 9 and records `caught_by` in every
seeded/<id>/meta.json.  usage: matrix_to_md.py <matrix.log>"""
import json, re, sys, os

rows = {}
for log in sys.argv[1:]:  # later logs override earlier ones
    for line in open(log):
        line = line.rstrip('\n')
        m = re.match(r'^([A-Za-z0-9-]+):(.*)$', line)
        if not m:
            continue
        sid, rest = m.group(1), m.group(2)
        hits = re.findall(r'(C\d\d)\[([^\]]*)\]', rest)
        rows[sid] = [(p, [s for s in sigs.split(',') if s]) for p, sigs in hits]

def one_line(sid):
    d = f'/verif/seeded/{sid}'
    meta = json.load(open(f'{d}/meta.json'))
    desc = ''
    rd = f'{d}/README.md'
    if os.path.exists(rd):
        txt = open(rd).read()
        # first heading or first sentence
        for l in txt.splitlines():
            l = l.strip().lstrip('#').strip()
            if len(l) > 25 and not l.lower().startswith('mutation'):
                desc = l
                break
    else:
        desc = meta.get('origin', '')
    return meta, desc[:150]

out = []
out.append('## 9. Seeded changes: which checks catch which\n')
out.append('The changes were written by independent sub-agents that were given only the text of one property and a\n'
           'scratch worktree of `/repo` (nothing from `/verif`), two per property and round: round 1 (`Cxx-m1/m2`: any\n'
           'realistic defect), round 2 (`-r2m*`: not the most obvious site), round 3 (`-r3m1`: two cooperating edits that\n'
           'are each harmless alone; `-r3m2`: interleaving-only, or - for the codec / macro / hook / stub properties - an\n'
           'unusual but legitimate input or usage), round 4 (`-r4m1`: reachable only through a less common API entry\n'
           'point, wrapper or configuration; `-r4m2`: manifests only after an earlier failure / cancellation / drop on the\n'
           'same connection), round 5 (fourteen properties, 27 changes; `-r5m1`: boundary values; `-r5m2`: interaction of two features), round 6 (eleven properties, one change each, `-r6m1`: depends on state left behind by earlier\n'
           'activity on the same connection or object - a fresh connection doing single calls is unaffected). Each was confirmed by us in a scratch worktree (it compiles with default and full features,\n'
           'the existing suite passes with it, its own demonstration test passes without it and fails with it -\n'
           '`seeded/<id>/meta.json`). `F1..F5-revert` are the reverses of repair commits, `H1` a hand-written one. The\n'
           'table is produced by `tools/matrix.sh` + `tools/matrix_to_md.py`: every change is applied to a scratch copy\n'
           'of the repository, all 20 *quick* checks are run at seed 0, and the checks that exit 1 are listed with the\n'
           'first oracle rules that fired. "own" = the check of the property the change was written against. All rows were measured with the\n'
           'final harness; detection by the *own* check was measured at three more seeds as well (9.3).\n')
out.append('| change | written against | caught by own check | all checks that fire (first rules) |')
out.append('|---|---|---|---|')
missed = []
for sid in sorted(rows):
    if not os.path.exists(f'/verif/seeded/{sid}/meta.json'):
        continue
    meta, desc = one_line(sid)
    own = meta['breaks_property']
    hits = rows[sid]
    own_hit = [s for p, s in hits if p == own]
    allh = '; '.join(f"{p}: {', '.join(x.split('/',1)[1] if '/' in x else x for x in s[:2])}" for p, s in hits) or '-'
    out.append(f"| `{sid}` | {own} | {'**yes**' if own_hit else 'no'} | {allh} |")
    meta['caught_by_quick_checks'] = {p: s for p, s in hits}
    meta['caught_by_own_check'] = bool(own_hit)
    json.dump(meta, open(f'/verif/seeded/{sid}/meta.json', 'w'), indent=1)
    if not own_hit:
        missed.append(sid)
out.append('')
out.append(f'Not caught by their own check: {", ".join(missed) if missed else "none"} (discussed below).\n')
open('/tmp/section9.md', 'w').write('\n'.join(out))
print('\n'.join(out[-6:]))
print('rows', len(rows))
