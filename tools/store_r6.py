#!/usr/bin/env python3
"""usage: store_r3.py <Cxx> ...  -- copies /tmp/mut6/<id>/out/m{1,2} to /verif/seeded/<id>-r3m{1,2} with a meta.json
built from the confirmation record /tmp/cmout/<id>-r3m{1,2}.json (only if fully confirmed)."""
import json, os, shutil, sys
titles = {}
for l in open('/verif/properties.jsonl'):
    d = json.loads(l); titles[d['id']] = d['title']
for pid in sys.argv[1:]:
    for m in ('m1',):
        src = f'/tmp/mut6/{pid}/out/{m}'
        cj = f'/tmp/cmout/{pid}-r6{m}.json'
        if not os.path.exists(cj) or not os.path.exists(src + '/patch.diff'):
            print('missing', pid, m); continue
        c = json.load(open(cj))
        ok = (c.get('demo_on_clean_tree') == 'pass' and c.get('demo_with_change') == 'fail'
              and c.get('build_default_features') == 'ok' and c.get('suite_with_change_alone') == 'pass')
        if not ok:
            print('NOT CONFIRMED', pid, m, c); continue
        sid = f'{pid}-r6{m}'
        dst = f'/verif/seeded/{sid}'
        os.makedirs(dst, exist_ok=True)
        files = {}
        for f in sorted(os.listdir(src)):
            shutil.copy(f'{src}/{f}', f'{dst}/{f}')
            files[f] = {'patch.diff': 'the seeded change (git apply at the root of /repo)',
                        'demo.diff': "adds the author's demonstration test",
                        'README.md': "author's description"}.get(f, 'one of the two cooperating edits alone (behaviour-preserving by itself)')
        kind4 = 'depends on state left behind by earlier activity on the same connection/object (manifests only after a specific multi-step history; a fresh connection doing single calls is unaffected)'
        meta = {
            'id': sid, 'breaks_property': pid, 'property_title': titles[pid],
            'origin': f'sixth round: written by an independent sub-agent given only the property text and a scratch worktree of /repo (main, 2c71440); required shape: {kind4}; nothing from /verif',
            'needs_to_manifest': 'see README.md', 'files': files,
            'confirmed_by_me': {
                'worktree': 'scratch git worktree of /repo at 2c71440 (main) under /tmp/cm (removed afterwards)',
                'demo_command': c['demo_cmd'], 'demo_on_unchanged_tree': 'pass', 'demo_with_change': 'fail',
                'change_alone_builds_default_and_full_features': 'ok',
                'existing_suite_with_change_alone': f"pass ({c['suite_tests_passed']} tests incl. doc tests passed; --skip ui)"}}
        json.dump(meta, open(f'{dst}/meta.json', 'w'), indent=1)
        print('stored', sid)
