#!/usr/bin/env python3
"""Generates /verif/MANIFEST.json from the table below (kept in one place so that it stays valid)."""
import json, subprocess, sys

HOOK_COMMITS = ["4a5e6df"]

# id -> (level category, technique, level text, level note, design ref)
CLAIMED = {}

def claim(pid, category, technique, text, note, ref):
    CLAIMED[pid] = (category, technique, text, note, ref)

MON = "runtime monitoring: "
claim("C01", "exploration", MON + "offline history checker (unique reply bodies per id) + isolated-delivery state comparison on the real client dispatch under a seeded poll scheduler",
      "Every execution of the real client dispatch is judged by an oracle that knows, for each call, exactly which reply bodies the peer injected for its wire id (bodies are unique), and by isolated deliveries of stray replies at clock-stopped idle points that must change nothing. Held on N executions covering reply orders, duplicates, unknown/cancelled/expired/max ids, clones, abandonments and expirations; says nothing about schedules not generated.",
      "trusted: the harness's mock transport and scheduler (self-tested), tokio's paused clock; only behaviours at poll granularity plus the hooked guard-drop points are explored", "DESIGN.md 4/C01")
claim("C02", "exploration", MON + "poll-only-after-wake scheduler, quiescence detector, unsolicited control polls at idle points, readable-input-at-idle check",
      "Bounded-liveness form: every task is polled only after its waker fired; at clock-stopped idle points an unsolicited poll must not make progress and no input may be left readable; at quiescence (nothing runnable, no environment action left, clock past every deadline) every call must have resolved. A lost wake-up shows as one of these. Held on the executions generated.",
      "eventual resolution is decided only in the bounded form 'by quiescence'; real-thread schedules are sampled, not enumerated", "DESIGN.md 0, 4/C02")
claim("C03", "exploration", MON + "per-id wire-order checker + obligations evaluated at clock-stopped idle points, with yield hooks inside the call guard's drop",
      "The client's outbox is the ground truth: per id the order of Request/Cancel items is checked, and at every idle point each abandoned, transmitted, unfinished call must already have its Cancel. The dispatch is run from inside the guard's drop (entry/mid/exit hooks) to produce the sub-poll interleavings a second worker thread can.",
      "requests whose deadline is possibly reached (within measured slack) are exempt from the obligation", "DESIGN.md 3, 4/C03")
claim("C05", "exploration", MON + "combined-time (virtual + measured real) bracket oracle anchored at the arming instant, evaluated at idle points",
      "Never-early and enforced-by bounds are computed from the virtual instant of transmission and real-time brackets measured around it; a reply consumed before the earliest legitimate expiry must be delivered; real sleeps put requests in the queue for real time so that 'queued time counts' is observable.",
      "timer granularity 1 ms (+2 ms slack on the late side); deadlines beyond the documented maximum span (1 year) are only checked for not crashing (C16)", "DESIGN.md 1, 4/C05")

claim("C04", "exploration", MON + "handler-lifecycle event log (start/poll/finish/drop per invocation) checked against the instant the channel read each Cancel; cascade obligation at clock-stopped idle points on real client/server chains",
      "S-server: no handler poll, no response and no in-flight count after the channel read the cancellation, for cancels at every stage (before first poll, running, finished-unwritten, written, unknown id), with and without limiter, sink ready or not. S-e2e: chains of depth 1-3 over every shipped transport; abandoning the head call must leave no unfinished handler alive at the next idle point without advancing the clock.",
      "requests whose deadline is possibly reached are exempt from the cascade obligation (the dispatcher owes no cancel for them)", "DESIGN.md 4/C04")
claim("C06", "exploration", MON + "combined-time bracket oracle anchored at the instant the channel read the request; unexplained-abort rule; idle-point lateness rule",
      "Every handler drop without finish that is not explained by a read Cancel, an application drop or a channel drop must be an expiry and must not be early; at idle points no handler may outlive its deadline; nothing is transmitted for an expired request; other requests still get their responses.",
      "known finding F6 (limiter at limit and sink not ready) is reported as KNOWN-FINDING by exact signature", "DESIGN.md 4/C06, 5.1")
claim("C07", "exploration", MON + "per-hop deadline shift bounded by measured send/receive brackets on monitored real transports",
      "For every call and hop the handler's deadline minus the sender's must lie within [recv_before - send_after, recv_after - send_before] measured around the serializing start_send and the deserializing poll_next (exact whatever the load); in-memory links must not change it; expired deadlines must arrive inside the decode bracket; accumulated over chains of 1-3 hops; deadlines from expired to 60 years.",
      "the 10-second default for an omitted deadline is checked in C15/C16's codec workload", "DESIGN.md 4/C07")
claim("C08", "exploration", MON + "invocation-unique handler results; responses attributed to invocations, offline lifecycle checker",
      "Each handler invocation returns a value unique to the invocation, so every written response identifies the invocation that produced it; duplicates of ids certainly in flight must not be offered, everything else read must be offered exactly once or throttled, at most one response per request and only after its handler finished and before cancel/expiry/abandon.",
      "scenarios in which an id is reused after cancellation/expiry/abandonment (outside the property's quantifier) are not judged", "DESIGN.md 4/C08, 5.3")
claim("C09", "fault_enumeration", MON + "fault injection at the k-th call of every transport method, enumerated from a fault-free counting run, with outcome oracles",
      "For each base scenario every (operation, k) is enumerated and the run repeated with that single fault (and end-of-stream at every read); the dispatch output / stream item must name the activity, every outstanding call must resolve with a connection error, later calls must fail fast, a failed request write fails only its call (no call may be left pending at quiescence and the dispatch may not sit on work until an unrelated wake-up - every idle point after a survived fault gets an unsolicited control poll), handlers must not outlive the dropped channel, nothing may panic.",
      "one fault per run; multi-fault sequences are not enumerated", "DESIGN.md 4/C09")
claim("C10", "exploration", MON + "wire-order checker for writes/flush/close at the client sink; end-of-stream obligations on the server stream",
      "Client: nothing is handed to the transport after close was first called, queued cancels precede close, Ok(()) only after close, prompt stop and failed calls on peer close. Server: the stream may end only after inbound EOF, with every yielded request ended and all responses flushed, and must end once that holds - also checked at clock-stopped idle points, so that a stream that only ends when an unrelated timer fires is reported. Server channels are built in every shipped way (new / with_defaults, bare or TrackedChannel from max_channels_per_key, limiter from Channel or Incoming) and used in all three documented ways.",
      "handle drop / EOF positions are sampled by the scheduler, not enumerated", "DESIGN.md 4/C10")
claim("C11", "exploration", MON + "hooked length accessors sampled after every poll + wire-derived certain/possible in-flight counts, long runs",
      "entries == timers after every poll on both ends; client never certainly above max_in_flight_requests on the wire; server in_flight_requests() never above possible, equal to exact at idle points without uncertainty; everything back to zero with the clock stopped once all calls/requests ended by any route; runs of 2500 requests reuse slots.",
      "known finding F6 affects the idle-equality clause and is matched by signature", "DESIGN.md 3, 4/C11")
claim("C12", "exploration", MON + "certain/possible in-flight bounds evaluated at the instant each request is read",
      "A request handed over while certainly >= L are in flight, or refused while possibly < L are (not counting requests the application abandoned before that poll began), is a violation; refused requests must get exactly one throttle response and never run; includes cancel/expiry/response/abandonment followed by a request inside one channel poll.",
      "in-flight counts are bounded from observable events (certainly / possibly in flight); found and repaired F4 and F8", "DESIGN.md 4/C12, 5.1")
claim("C13", "exploration", MON + "exact alive-set oracle over bounded-exhaustive and random arrival/close/poll sequences",
      "The harness owns every yielded channel, so the number alive per key is exact at every admit/shed decision; all sequences up to length 7 (quick) / 10 (thorough) over {arrive, close, poll} x 2 keys and n in {1,2} are enumerated, all up to length 6 / 8 over the same plus take-over (an arrival whose hand-over inside the listener's own poll closes the oldest live channel of its key), plus random longer ones over 3 keys and n up to 3.",
      "sequences beyond the enumerated length are only sampled; found and repaired F1", "DESIGN.md 4/C13, 5.1")
claim("C14", "exploration", MON + "online sink-contract monitor inside the instrumented transport (readiness credit, write-after-close/failure, idle-with-unflushed, spin detector)",
      "Every Sink/Stream call tarpc makes is checked online on both coupled and independent readiness models, capacities 1..8, with injected faults for the after-failure clause; a transport that refuses a write for which it has no room makes the consequences visible too; the instrumented transport itself is self-tested against a reference sink user.",
      "only the two readiness models of the mock are exercised (plus the shipped transports in S-e2e); found and repaired F5", "DESIGN.md 2.2, 4/C14, 5.1")
claim("C18", "exploration", MON + "unique trace ids per call compared on the wire, in handlers and across hops",
      "Every call carries a unique trace id; wire Request, handler context, nested call and Cancel are compared per call and hop on S-client and S-e2e; span ids must be fresh per hop.",
      "compared without a subscriber and, for the cross-hop clauses, under an OpenTelemetry subscriber", "DESIGN.md 4/C18")
claim("C19", "exploration", MON + "reference interpreter vs. recorded hook/handler event sequence over bounded-exhaustive hook trees",
      "All hook trees up to nesting depth 4 (quick) / 5 (thorough) plus random deeper ones are executed through the real combinators and compared event by event (whole context tuple: trace id, span id, sampling, deadline; results incl. error kind) with an interpreter written from the property's sentences; hooks are structs or closures depending on their id and each changes one context field; every io::ErrorKind produced by a hook in four placements is also served by a real BaseChannel over JSON and bincode to a real client.",
      "hooks are immediately-ready futures; the context seen by a plain after-hook is not compared", "DESIGN.md 4/C19")
claim("C20", "exploration", MON + "recording backends under sequential prefixes, real-thread concurrency, adversarial hashers and every retry policy vector up to length 6",
      "Round-robin balance after every prefix and after real-thread concurrent runs; consistent hash is a function into valid indices for 6 hashers; retry attempt numbering, request identity (Arc pointer), stop point, returned result and per-attempt context for every policy vector up to length 6 and every kind of RpcError; Retry composed over RoundRobin (attempts spread evenly); call futures dropped unpolled (not calls) and calls given up while waiting for a backend (calls); Miri tier in thorough.",
      "counter wrap-around (2^64 calls) is out of reach of execution", "DESIGN.md 4/C20")

claim("C15", "exploration", MON + "differential in/out comparison of generated message sequences over every shipped transport with adversarial fragmentation; end-of-stream check; error-kind table check",
      "Whatever is written at one end must be read at the other, complete, unmodified and in order, for all variants, boundary ids, empty/unicode/64 KiB/1 MiB bodies, every io::ErrorKind the platform can produce, with reads and writes split down to one byte and Pending injected anywhere, ending by drop or by close, with reverse traffic after a half-close; both constructors of the serde transport (new with a fresh or a previously used Framed whose read buffer already holds frames, Transport::from); one exchange each over the shipped tcp:: and unix:: listen/connect endpoints with default and non-default framing configuration; optional fields removed from hand-edited JSON; the codec is used exactly as shipped (Bincode::default()).",
      "real sockets only in smoke exchanges (kernel fragmentation is not controllable); the byte-stream quantifier is approximated by adversarial fragmentation of an in-memory pipe", "DESIGN.md 4/C15")
claim("C16", "exploration", MON + "panic monitor (catch_unwind around every poll, child-process exit status) under hostile bytes, boundary-valued wire messages and extreme local deadlines, in three subscriber modes",
      "Mutated encodings against both decoders in both directions (child process); 90 cases of certainly undecodable or truncated frames after 0-3 well-formed ones, which requests(), the limiter at and below its limit, the raw channel stream and the client dispatch must each end with a read error (not a clean end, not silence); 84 wire-level boundary deadlines with a probe that must still be served, S-server/S-client scenarios with extreme ids and deadlines and duplicate/unknown-id floods under no / fmt / OpenTelemetry subscriber; a stall after an odd-but-well-formed message counts as a violation, and so does a request that was in flight when a duplicate of its id arrived and is then aborted before its own deadline.",
      "known finding F7 (DelayQueue insert after >1.18 years without a fired timer) is matched by exact signature", "DESIGN.md 4/C16, 5.1")

claim("C17", "exploration", MON + "generated programs: the real proc macro expands seeded service definitions, rustc compiles them, recording implementors and spying stubs observe every call",
      "For 48 (quick) / 640 (thorough) generated services per seed every enabled method is called through the generated client over the in-memory transport (every other serializable service: over the serde transport, bincode or JSON) and through a Stub-based client; the implementor's record (service, method, Debug of all arguments in order, context deadline and trace id) and the caller's result are compared, RequestName::name() is checked, and 10 colliding definitions must each fail to compile.",
      "programs outside the generator's grammar (generic services, lifetimes, where clauses) are not produced", "DESIGN.md 2.7, 4/C17")

ALL = ["C%02d" % i for i in range(1, 21)]

def main():
    props = [json.loads(l) for l in open('/verif/properties.jsonl')]
    ids = [p['id'] for p in props]
    assert ids == ALL
    checks = []
    for pid in ids:
        if pid not in CLAIMED:
            continue
        cat, tech, text, note, ref = CLAIMED[pid]
        checks.append({
            "property_id": pid,
            "quick_cmd": f"./check {pid} quick",
            "thorough_cmd": f"./check {pid} thorough",
            "evidence_file": f"/verif/evidence/{pid}.json",
            "replay_cmd_template": f"./check {pid} --replay {{path}}",
            "engine": "tarpc-verif",
            "level_claimed": {"category": cat, "text": text, "design_ref": ref},
            "level_note": note,
            "technique": tech,
        })
    na = [{"property_id": pid, "reason": "check not built yet in this session (planned: see DESIGN.md section 4); not a judgement that runtime monitoring cannot apply"} for pid in ids if pid not in CLAIMED]
    m = {
        "version": 1,
        "setup_cmd": "./setup.sh",
        "hooks": {
            "guard": "cargo feature `verif` of crate tarpc (off by default)",
            "enable": "the harness depends on tarpc = { path = \"/repo/tarpc\", features = [\"full\", \"verif\"] } and is rebuilt by ./check on every run",
            "baseline_off_cmd": "cd /repo && (cargo nextest run --workspace --no-fail-fast --tool-config-file pb:/w/lib/nextest.toml --profile pb --test-threads 8 --offline || cargo test --workspace --no-fail-fast --offline)",
            "source_commits": HOOK_COMMITS,
            "add_only": True,
        },
        "engines": [{
            "name": "tarpc-verif",
            "path": "/verif/harness",
            "serves_properties": sorted(CLAIMED.keys()),
            "kind_free_text": "Rust harness: seeded deterministic poll scheduler on tokio's paused clock, monitored mock/real transports, online contract monitors and offline history oracles over recorded event logs; real-thread and Miri tiers",
        }],
        "checks": checks,
        "not_applicable": na,
        "notes": "Exit codes: 0 held on everything explored; 1 violation (VIOLATION line); 3 inconclusive (harness trouble, never a verdict). Known findings: /verif/known_findings.json. VERIF_SEED selects the schedule/workload seed.",
    }
    json.dump(m, open('/verif/MANIFEST.json', 'w'), indent=1)
    print("claimed", len(checks), "not_applicable", len(na))

if __name__ == '__main__':
    main()
