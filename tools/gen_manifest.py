#!/usr/bin/env python3
"""Generates /verif/MANIFEST.json from the table below (kept in one place so that it stays valid)."""
import json, subprocess, sys

HOOK_COMMITS = ["4a5e6df"]

# id -> (level category, technique, level text, level note, design ref)
CLAIMED = {}

def claim(pid, category, technique, text, note, ref):
    CLAIMED[pid] = (category, technique, text, note, ref)

MON = "runtime monitoring: "
claim("C01", "exploration", MON + "offline history checker (unique reply bodies per id) + isolated-delivery state comparison on the real client dispatch under a seeded poll scheduler",
      "Every execution of the real client dispatch is judged by an oracle that knows, for each call, exactly which reply bodies the peer injected for its wire id (bodies are unique), and by isolated deliveries of stray replies at clock-stopped idle points that must change nothing. Held on N executions covering reply orders, duplicates, unknown/cancelled/expired/max ids, clones, abandonments and expirations; says nothing about schedules not generated.",
      "trusted: the harness's mock transport and scheduler (self-tested), tokio's paused clock; only behaviours at poll granularity plus the hooked guard-drop points are explored", "DESIGN.md 4/C01")
claim("C02", "exploration", MON + "poll-only-after-wake scheduler, quiescence detector, unsolicited control polls at idle points, readable-input-at-idle check",
      "Bounded-liveness form: every task is polled only after its waker fired; at clock-stopped idle points an unsolicited poll must not make progress and no input may be left readable; at quiescence (nothing runnable, no environment action left, clock past every deadline) every call must have resolved. A lost wake-up shows as one of these. Held on the executions generated.",
      "eventual resolution is decided only in the bounded form 'by quiescence'; real-thread schedules are sampled, not enumerated", "DESIGN.md 0, 4/C02")
claim("C03", "exploration", MON + "per-id wire-order checker + obligations evaluated at clock-stopped idle points, with yield hooks inside the call guard's drop",
      "The client's outbox is the ground truth: per id the order of Request/Cancel items is checked, and at every idle point each abandoned, transmitted, unfinished call must already have its Cancel. The dispatch is run from inside the guard's drop (entry/mid/exit hooks) to produce the sub-poll interleavings a second worker thread can.",
      "requests whose deadline is possibly reached (within measured slack) are exempt from the obligation", "DESIGN.md 3, 4/C03")
claim("C05", "exploration", MON + "combined-time (virtual + measured real) bracket oracle anchored at the arming instant, evaluated at idle points",
      "Never-early and enforced-by bounds are computed from the virtual instant of transmission and real-time brackets measured around it; a reply consumed before the earliest legitimate expiry must be delivered; real sleeps put requests in the queue for real time so that 'queued time counts' is observable.",
      "timer granularity 1 ms (+2 ms slack on the late side); deadlines beyond the documented maximum span (1 year) are only checked for not crashing (C16)", "DESIGN.md 1, 4/C05")

ALL = ["C%02d" % i for i in range(1, 21)]

def main():
    props = [json.loads(l) for l in open('/verif/properties.jsonl')]
    ids = [p['id'] for p in props]
    assert ids == ALL
    checks = []
    for pid in ids:
        if pid not in CLAIMED:
            continue
        cat, tech, text, note, ref = CLAIMED[pid]
        checks.append({
            "property_id": pid,
            "quick_cmd": f"./check {pid} quick",
            "thorough_cmd": f"./check {pid} thorough",
            "evidence_file": f"/verif/evidence/{pid}.json",
            "replay_cmd_template": f"./check {pid} --replay {{path}}",
            "engine": "tarpc-verif",
            "level_claimed": {"category": cat, "text": text, "design_ref": ref},
            "level_note": note,
            "technique": tech,
        })
    na = [{"property_id": pid, "reason": "check not built yet in this session (planned: see DESIGN.md section 4); not a judgement that runtime monitoring cannot apply"} for pid in ids if pid not in CLAIMED]
    m = {
        "version": 1,
        "setup_cmd": "./setup.sh",
        "hooks": {
            "guard": "cargo feature `verif` of crate tarpc (off by default)",
            "enable": "the harness depends on tarpc = { path = \"/repo/tarpc\", features = [\"full\", \"verif\"] } and is rebuilt by ./check on every run",
            "baseline_off_cmd": "cd /repo && (cargo nextest run --workspace --no-fail-fast --tool-config-file pb:/w/lib/nextest.toml --profile pb --test-threads 8 --offline || cargo test --workspace --no-fail-fast --offline)",
            "source_commits": HOOK_COMMITS,
            "add_only": True,
        },
        "engines": [{
            "name": "tarpc-verif",
            "path": "/verif/harness",
            "serves_properties": sorted(CLAIMED.keys()),
            "kind_free_text": "Rust harness: seeded deterministic poll scheduler on tokio's paused clock, monitored mock/real transports, online contract monitors and offline history oracles over recorded event logs; real-thread and Miri tiers",
        }],
        "checks": checks,
        "not_applicable": na,
        "notes": "Exit codes: 0 held on everything explored; 1 violation (VIOLATION line); 3 inconclusive (harness trouble, never a verdict). Known findings: /verif/known_findings.json. VERIF_SEED selects the schedule/workload seed.",
    }
    json.dump(m, open('/verif/MANIFEST.json', 'w'), indent=1)
    print("claimed", len(checks), "not_applicable", len(na))

if __name__ == '__main__':
    main()
