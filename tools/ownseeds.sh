#!/bin/bash
# usage: ownseeds.sh <outfile> [seeds...] -- for every seeded change: apply to the side copy /tmp/hbrepo3, run ONLY the
# check of the property it was written against at several seeds, report how many violations were seen per seed.
out="$1"; shift; seeds="${@:-1 2 3}"; : > "$out"
export VERIF_REPO=/tmp/hbrepo3 VERIF_DIR=/tmp/hb3
cp /verif/known_findings.json /tmp/hb3/
for patch in $(ls /verif/seeded/${ONLY:-*}/patch.diff | sort -u); do
  d=$(dirname $patch); name=$(basename $d)
  prop=$(python3 -c "import json;print(json.load(open('$d/meta.json'))['breaks_property'])")
  cd /tmp/hbrepo3 && git checkout -q -- . && git apply "$patch" 2>/dev/null || { echo "$name: PATCH DOES NOT APPLY" >> "$out"; continue; }
  (cd /tmp/hb3 && cargo build --release --offline 2>&1 | grep -E "^error" -A 6 | head -20 >> "$out")
  line="$name $prop:"
  for s in $seeds; do
    r=$(cd /tmp/hb3 && VERIF_SEED=$s timeout 1800 ./target/release/tarpc-verif $prop quick 2>&1)
    n=$(echo "$r" | grep -oE "violations=[0-9]+" | head -1 | cut -d= -f2)
    v=$(echo "$r" | grep -c "^VIOLATION")
    line="$line s$s=${n:-?}/${v}"
  done
  echo "$line" >> "$out"
done
cd /tmp/hbrepo3 && git checkout -q -- .
echo DONE >> "$out"
