#!/usr/bin/env python3
"""usage: assemble_section9.py  -- replaces (or appends) section 9 of DESIGN.md with /tmp/section9.md (made by
matrix_to_md.py) followed by tools/section9_tail.md"""
p = '/verif/DESIGN.md'
s = open(p).read()
i = s.find('\n## 9. Seeded changes')
if i >= 0:
    s = s[:i]
s = s.rstrip('\n') + '\n\n' + open('/tmp/section9.md').read().rstrip('\n') + '\n\n' + open('/verif/tools/section9_tail.md').read()
open(p, 'w').write(s)
print('section 9 written,', len(s.splitlines()), 'lines')
