#!/bin/bash
# usage: mutall.sh <outfile> <props...> -- runs every collected seeded change under /tmp/mut and /verif/seeded against the given checks
out="$1"; shift
: > "$out"
for patch in $(ls /tmp/mut/C*/out/m*/patch.diff /verif/seeded/*/patch.diff 2>/dev/null | sort -u); do
  name=$(echo $patch | sed 's#/tmp/mut/##; s#/verif/seeded/#seeded/#; s#/out/#-#; s#/patch.diff##')
  cd /repo && git diff --quiet || { echo "repo dirty" >> "$out"; exit 2; }
  git apply "$patch" 2>/dev/null || { echo "$name: PATCH DOES NOT APPLY" >> "$out"; continue; }
  (cd /verif/harness && cargo build --release --offline 2>&1 | grep -E "^error" -A 6 | head -20 >> "$out")
  line="$name:"
  for p in "$@"; do
    r=$(/verif/harness/target/release/tarpc-verif $p quick 2>&1)
    if echo "$r" | grep -q "^VIOLATION"; then
      sig=$(echo "$r" | grep -E "^  C[0-9]+/" | head -2 | sed 's/^  //; s/:.*//' | tr '\n' ',')
      line="$line $p[$sig]"
    fi
  done
  echo "$line" >> "$out"
  git -C /repo checkout -- .
done
cd /verif/harness && cargo build --release --offline 2>&1 | tail -1 >> "$out"
echo DONE >> "$out"
