#!/bin/bash
# usage: mutside.sh <patch> [-R] <props...>  -- like mutest.sh but on the side copy (/tmp/hbrepo2 + /tmp/hb) so that /repo stays untouched
patch="$1"; shift
rev=""
if [ "$1" = "-R" ]; then rev="-R"; shift; fi
cd /tmp/hbrepo2 || exit 2
git checkout -q -- . ; git apply $rev "$patch" || { echo "patch does not apply"; exit 2; }
cd /tmp/hb2 && cargo build --release --offline 2>&1 | grep -E "^error" -A 8 | head -30
for p in "$@"; do
  VERIF_REPO=/tmp/hbrepo2 VERIF_DIR=/tmp/hb2 ./target/release/tarpc-verif $p ${TIER:-quick} 2>&1 | grep -E "VIOLATION|^\[|^  C|INCONCL" | cut -c1-300 | head -${LINES_MAX:-6}
done
cd /tmp/hbrepo2 && git checkout -q -- .
