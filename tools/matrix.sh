#!/bin/bash
# usage: matrix.sh <outfile>  -- runs every seeded change (patch.diff under /verif/seeded/*/ and /tmp/mut/*/out/*/)
# against all 20 quick checks on the side copy (/tmp/hbrepo + /tmp/hb); development calibration only.
out="$1"; : > "$out"
# env: ONLY (glob on ids), ONLY_RE (regex on ids), MX_REPO / MX_HB (side copy to use; default /tmp/hbrepo + /tmp/hb)
R=${MX_REPO:-/tmp/hbrepo}; H=${MX_HB:-/tmp/hb}
export VERIF_REPO=$R VERIF_DIR=$H
cp /verif/known_findings.json $H/
for patch in $(ls /verif/seeded/${ONLY:-*}/patch.diff | grep -E "seeded/(${ONLY_RE:-.*})/patch.diff" | sort -u); do
  name=$(echo $patch | sed 's#/tmp/mut/##; s#/verif/seeded/##; s#/out/#-#; s#/patch.diff##')
  cd $R && git checkout -q -- . && git apply "$patch" 2>/dev/null || { echo "$name: PATCH DOES NOT APPLY" >> "$out"; continue; }
  (cd $H && cargo build --release --offline 2>&1 | grep -E "^error" -A 6 | head -20 >> "$out")
  line="$name:"
  for p in C01 C02 C03 C04 C05 C06 C07 C08 C09 C10 C11 C12 C13 C14 C15 C16 C17 C18 C19 C20; do
    r=$(cd $H && ./target/release/tarpc-verif $p quick 2>&1)
    if echo "$r" | grep -q "^VIOLATION"; then
      sig=$(echo "$r" | grep -E "^  C[0-9]+/" | head -2 | sed 's/^  //; s/:.*//' | tr '\n' ',')
      line="$line $p[$sig]"
    fi
  done
  echo "$line" >> "$out"
done
cd $R && git checkout -q -- .
echo DONE >> "$out"
