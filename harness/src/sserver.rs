//! S-server: the real BaseChannel (± max_concurrent_requests) driven through `requests()` +
//! `InFlightRequest::execute`, through `execute()`, with scripted handlers; the harness plays the
//! client peer and the application. Oracles: C04 C06 C08 C09(server) C10(server) C11(server) C12
//! C14(server) C16(peer messages).
use crate::common::*;
use crate::mock::*;
use crate::sclient::{panic_msg, YEAR_MS};
use futures::{prelude::*, task::*};
use serde_json::json;
use std::{
    cell::RefCell,
    collections::{BTreeMap, BTreeSet, HashMap},
    panic::{catch_unwind, AssertUnwindSafe},
    pin::Pin,
    rc::Rc,
    time::{Duration, Instant},
};
use tarpc::{
    context,
    server::{
        limits::requests_per_channel::MaxRequests, serve, BaseChannel, Channel, Config,
        InFlightRequest, Requests,
    },
    trace, ChannelError, ClientMessage, Request, Response, ServerError,
};

pub type SMock = Mock<Response<String>, ClientMessage<String>>;
type Bare = BaseChannel<String, String, SMock>;
type HFut = Pin<Box<dyn Future<Output = ()>>>;
type Tracked = tarpc::server::limits::channels_per_key::TrackedChannel<Bare, u8>;

/// The channel under test: a `BaseChannel`, bare or as handed out by the listener-level
/// `max_channels_per_key` combinator (a `TrackedChannel`, which must behave exactly like the channel
/// it wraps). The enum only forwards; both variants are boxed so that no projection is needed.
pub enum Base {
    B(Pin<Box<Bare>>),
    T(Pin<Box<Tracked>>),
}
impl Base {
    fn bare(&self) -> &Bare {
        match self {
            Base::B(c) => c,
            Base::T(c) => c.get_ref(),
        }
    }
    fn verif_in_flight(&self) -> tarpc::verif::Lens {
        self.bare().verif_in_flight()
    }
}
impl Stream for Base {
    type Item = Result<tarpc::server::TrackedRequest<String>, ChannelError<TErr>>;
    fn poll_next(self: Pin<&mut Self>, cx: &mut Context<'_>) -> Poll<Option<Self::Item>> {
        match self.get_mut() {
            Base::B(c) => c.as_mut().poll_next(cx),
            Base::T(c) => c.as_mut().poll_next(cx),
        }
    }
}
impl Sink<Response<String>> for Base {
    type Error = ChannelError<TErr>;
    fn poll_ready(self: Pin<&mut Self>, cx: &mut Context<'_>) -> Poll<Result<(), Self::Error>> {
        match self.get_mut() {
            Base::B(c) => c.as_mut().poll_ready(cx),
            Base::T(c) => c.as_mut().poll_ready(cx),
        }
    }
    fn start_send(self: Pin<&mut Self>, item: Response<String>) -> Result<(), Self::Error> {
        match self.get_mut() {
            Base::B(c) => c.as_mut().start_send(item),
            Base::T(c) => c.as_mut().start_send(item),
        }
    }
    fn poll_flush(self: Pin<&mut Self>, cx: &mut Context<'_>) -> Poll<Result<(), Self::Error>> {
        match self.get_mut() {
            Base::B(c) => c.as_mut().poll_flush(cx),
            Base::T(c) => c.as_mut().poll_flush(cx),
        }
    }
    fn poll_close(self: Pin<&mut Self>, cx: &mut Context<'_>) -> Poll<Result<(), Self::Error>> {
        match self.get_mut() {
            Base::B(c) => c.as_mut().poll_close(cx),
            Base::T(c) => c.as_mut().poll_close(cx),
        }
    }
}
impl Channel for Base {
    type Req = String;
    type Resp = String;
    type Transport = SMock;
    fn config(&self) -> &Config {
        match self {
            Base::B(c) => c.config(),
            Base::T(c) => c.config(),
        }
    }
    fn in_flight_requests(&self) -> usize {
        match self {
            Base::B(c) => c.in_flight_requests(),
            Base::T(c) => c.in_flight_requests(),
        }
    }
    fn transport(&self) -> &SMock {
        match self {
            Base::B(c) => c.transport(),
            Base::T(c) => c.transport(),
        }
    }
}

#[derive(Clone, Copy, Debug, PartialEq)]
pub enum Mode {
    /// `requests()` + the application decides per InFlightRequest (execute / hold / drop)
    Requests,
    /// `execute(serve)`: a stream of futures, spawned as they come
    Execute,
    /// the channel's own `Stream` of `TrackedRequest`s and `Sink` of responses, with an `Abortable`
    /// built by the application from the request's abort registration (third documented way)
    Raw,
}

#[derive(Clone, Debug)]
pub enum PeerMsg {
    Req { id: u64, d: SDl },
    Cancel { id: u64 },
    Eof,
}
#[derive(Clone, Copy, Debug, PartialEq)]
pub enum SDl {
    Past,
    Ms(u64),
    /// seconds; beyond the supported span (C16 only)
    Beyond(u64),
    /// largest representable instant
    Max,
}
impl SDl {
    fn d_ms(self) -> u64 {
        match self {
            SDl::Past => 0,
            SDl::Ms(m) => m,
            SDl::Beyond(s) => s.saturating_mul(1000).min(1 << 60),
            SDl::Max => 1 << 60,
        }
    }
    fn timed(self) -> bool {
        matches!(self, SDl::Past | SDl::Ms(_))
    }
}

#[derive(Clone, Debug)]
pub enum SAct {
    PollServer,
    PollH(usize),
    Inject(PeerMsg),
    OpenGate(usize),
    DropH(usize),
    ExecHeld(usize),
    DropHeld(usize),
    OpenFlush,
    CloseFlush,
    FreeSlot,
    Advance(u64),
    RunIdle,
    /// script only: inject a fresh request / a cancel for the n-th injected request
    Fresh(SDl),
    CancelNth(usize),
    DupNth(usize),
    DupNthD(usize, SDl),
    OpenAllGates,
}

#[derive(Clone, Debug)]
pub struct Cfg {
    pub seed: u64,
    pub mode: Mode,
    pub model: Model,
    pub cap: usize,
    pub limit: Option<usize>,
    pub resp_buf: usize,
    pub nmsgs: usize,
    pub deadlines: Vec<SDl>,
    pub cancel_pct: u64,
    pub dup_pct: u64,
    pub reuse_pct: u64,
    pub hold_pct: u64,
    pub drop_pct: u64,
    pub droph_pct: u64,
    pub err_pct: u64,
    pub block_transport: bool,
    pub fault: Option<(Op, usize)>,
    pub script: Vec<SAct>,
    pub label: &'static str,
    pub eof: bool,
    pub extreme: bool,
    pub steps_per_handler: usize,
    pub auto_gates: bool,
}
impl Cfg {
    pub fn base(seed: u64) -> Cfg {
        Cfg {
            seed,
            mode: Mode::Requests,
            model: Model::Coupled,
            cap: 2,
            limit: None,
            resp_buf: 2,
            nmsgs: 6,
            deadlines: vec![SDl::Ms(50), SDl::Ms(200), SDl::Ms(10_000), SDl::Ms(10_000)],
            cancel_pct: 25,
            dup_pct: 8,
            reuse_pct: 8,
            hold_pct: 15,
            drop_pct: 8,
            droph_pct: 3,
            err_pct: 10,
            block_transport: true,
            fault: None,
            script: vec![],
            label: "random",
            eof: true,
            extreme: false,
            steps_per_handler: 2,
            auto_gates: true,
        }
    }
    pub fn random(seed: u64) -> Cfg {
        let mut r = Rng::new(seed ^ 0x5E7E);
        let mut c = Cfg::base(seed);
        c.mode = match r.below(8) {
            0 | 1 => Mode::Execute,
            2 => Mode::Raw,
            _ => Mode::Requests,
        };
        // development aid: force one usage mode
        match std::env::var("VERIF_MODE").as_deref() {
            Ok("raw") => c.mode = Mode::Raw,
            Ok("execute") => c.mode = Mode::Execute,
            Ok("requests") => c.mode = Mode::Requests,
            _ => {}
        }
        c.model = if r.chance(1, 2) { Model::Coupled } else { Model::Independent };
        c.cap = *r.pick(&[1, 1, 2, 3, 8]);
        c.limit = *r.pick(&[None, None, Some(0), Some(1), Some(1), Some(2), Some(3), Some(8)]);
        c.resp_buf = *r.pick(&[1, 1, 2, 8, 100]);
        c.nmsgs = 1 + r.below(12);
        if r.chance(1, 15) {
            c.nmsgs = 20 + r.below(40);
        }
        let all = [
            SDl::Past,
            SDl::Ms(0),
            SDl::Ms(1),
            SDl::Ms(3),
            SDl::Ms(20),
            SDl::Ms(50),
            SDl::Ms(200),
            SDl::Ms(10_000),
            SDl::Ms(3 * 3600 * 1000),
            SDl::Ms(YEAR_MS),
            // beyond the supported span: clamped by the server, still tracked, cancellable, de-duplicated
            SDl::Beyond(2 * 366 * 24 * 3600),
            SDl::Max,
        ];
        let k = 1 + r.below(4);
        c.deadlines = (0..k).map(|_| *r.pick(&all)).collect();
        c.deadlines.push(SDl::Ms(10_000));
        c.cancel_pct = *r.pick(&[0, 10, 25, 50]);
        c.dup_pct = *r.pick(&[0, 8, 20]);
        c.reuse_pct = *r.pick(&[0, 8, 20]);
        c.hold_pct = *r.pick(&[0, 15, 40]);
        c.drop_pct = *r.pick(&[0, 8, 20]);
        c.droph_pct = *r.pick(&[0, 3, 10]);
        c.block_transport = r.chance(3, 4);
        c.eof = r.chance(4, 5);
        c.steps_per_handler = 1 + r.below(3);
        c
    }
    pub fn to_json(&self) -> serde_json::Value {
        json!({
            "family": "S-server", "label": self.label, "seed": self.seed, "mode": format!("{:?}", self.mode),
            "model": format!("{:?}", self.model), "cap": self.cap, "limit": self.limit,
            "pending_response_buffer": self.resp_buf, "nmsgs": self.nmsgs,
            "deadlines": format!("{:?}", self.deadlines),
            "cancel/dup/reuse/hold/drop/droph_pct": [self.cancel_pct, self.dup_pct, self.reuse_pct, self.hold_pct, self.drop_pct, self.droph_pct],
            "fault": self.fault.map(|(o,k)| format!("{}#{}", o.name(), k)),
            "script": format!("{:?}", self.script), "eof": self.eof,
        })
    }
}

#[derive(Debug, Clone)]
pub enum Ev {
    /// harness injected a message (seq) into the server's inbox
    Inj { seq: usize, kind: &'static str, id: u64 },
    /// the channel's transport read returned this message
    In { seq: usize, kind: &'static str, id: u64, v: u64, step: u64, epoch: u64 },
    Out { id: u64, body: Result<String, String>, throttled: bool, v: u64, step: u64 },
    Yield { seq: usize, id: u64, v: u64, step: u64 },
    AppDrop { seq: usize, v: u64, step: u64 },
    HStart { inv: usize, seq: usize, v: u64 },
    HPoll { inv: usize, n: usize, v: u64, step: u64 },
    HFinish { inv: usize, v: u64, step: u64 },
    HDrop { inv: usize, finished: bool, v: u64, r: Instant, step: u64 },
    Idle { v: u64, step: u64, reported: Option<usize>, lens: Option<(usize, usize)>, writable: bool, inbox: usize, unflushed: usize },
    End { v: u64, step: u64 },
    StreamErr { variant: String, step: u64 },
    EofSeen { step: u64 },
    ChannelDropped { step: u64 },
    /// a poll of the request stream is about to be made (orders application drops against polls)
    PollCall,
}

struct HShared {
    ev: Vec<Ev>,
    gates: BTreeMap<usize, (usize, Option<Waker>)>, // inv -> (permits, waker)
    next_inv: usize,
    step: u64,
    t0: tokio::time::Instant,
    steps_per_handler: usize,
    err_pct: u64,
    ctx_seen: HashMap<usize, context::Context>,
    cursor: (usize, usize, bool),
    synth_yield: bool,
}
impl HShared {
    fn v(&self) -> u64 {
        self.t0.elapsed().as_millis() as u64
    }
}
struct Gate {
    sh: Rc<RefCell<HShared>>,
    inv: usize,
    n: usize,
}
impl Future for Gate {
    type Output = ();
    fn poll(self: Pin<&mut Self>, cx: &mut Context<'_>) -> Poll<()> {
        let mut s = self.sh.borrow_mut();
        let (step, v) = (s.step, s.v());
        let (inv, n) = (self.inv, self.n);
        s.ev.push(Ev::HPoll { inv, n, v, step });
        let g = s.gates.entry(inv).or_insert((0, None));
        if g.0 > 0 {
            g.0 -= 1;
            Poll::Ready(())
        } else {
            g.1 = Some(cx.waker().clone());
            Poll::Pending
        }
    }
}
struct DropLog {
    sh: Rc<RefCell<HShared>>,
    inv: usize,
    finished: bool,
}
impl Drop for DropLog {
    fn drop(&mut self) {
        let mut s = self.sh.borrow_mut();
        let (step, v) = (s.step, s.v());
        s.gates.remove(&self.inv);
        let (inv, finished) = (self.inv, self.finished);
        s.ev.push(Ev::HDrop { inv, finished, v, r: Instant::now(), step });
    }
}

enum Srv {
    Plain(Pin<Box<Requests<Base>>>),
    Limited(Pin<Box<Requests<MaxRequests<Base>>>>),
    Exec(Pin<Box<dyn Stream<Item = HFut>>>),
    RawPlain(Pin<Box<Base>>),
    RawLimited(Pin<Box<MaxRequests<Base>>>),
}
enum Polled {
    Tracked(tarpc::server::TrackedRequest<String>),
    Pending,
    End,
    Err(String),
    Req(InFlightRequest<String, String>),
    Fut(HFut),
}
impl Srv {
    fn poll(&mut self, cx: &mut Context<'_>) -> Polled {
        fn conv(p: Poll<Option<Result<InFlightRequest<String, String>, ChannelError<TErr>>>>) -> Polled {
            match p {
                Poll::Pending => Polled::Pending,
                Poll::Ready(None) => Polled::End,
                Poll::Ready(Some(Err(e))) => Polled::Err(
                    match e {
                        ChannelError::Read(_) => "Read",
                        ChannelError::Ready(_) => "Ready",
                        ChannelError::Write(_) => "Write",
                        ChannelError::Flush(_) => "Flush",
                        ChannelError::Close(_) => "Close",
                    }
                    .into(),
                ),
                Poll::Ready(Some(Ok(r))) => Polled::Req(r),
            }
        }
        match self {
            Srv::Plain(r) => conv(r.as_mut().poll_next(cx)),
            Srv::Limited(r) => conv(r.as_mut().poll_next(cx)),
            Srv::Exec(s) => match s.as_mut().poll_next(cx) {
                Poll::Pending => Polled::Pending,
                Poll::Ready(None) => Polled::End,
                Poll::Ready(Some(f)) => Polled::Fut(f),
            },
            Srv::RawPlain(_) | Srv::RawLimited(_) => unreachable!("raw channels are driven by raw_poll"),
        }
    }
    /// The application's side of the raw usage: write queued responses (readiness first), flush,
    /// then read the next tracked request.
    fn raw_poll(&mut self, cx: &mut Context<'_>, outbox: &Rc<RefCell<std::collections::VecDeque<Response<String>>>>) -> Polled {
        fn name(e: &ChannelError<TErr>) -> String {
            match e {
                ChannelError::Read(_) => "Read",
                ChannelError::Ready(_) => "Ready",
                ChannelError::Write(_) => "Write",
                ChannelError::Flush(_) => "Flush",
                ChannelError::Close(_) => "Close",
            }
            .into()
        }
        macro_rules! go {
            ($ch:expr) => {{
                let ch = $ch;
                loop {
                    if outbox.borrow().is_empty() {
                        break;
                    }
                    match ch.as_mut().poll_ready(cx) {
                        Poll::Ready(Ok(())) => {
                            let r = outbox.borrow_mut().pop_front().unwrap();
                            if let Err(e) = ch.as_mut().start_send(r) {
                                return Polled::Err(name(&e));
                            }
                        }
                        Poll::Ready(Err(e)) => return Polled::Err(name(&e)),
                        Poll::Pending => break,
                    }
                }
                // a diligent application: whatever was written (by it, or by the limiter inside
                // poll_next) is flushed before it goes idle or treats the channel as finished
                match ch.as_mut().poll_next(cx) {
                    r @ (Poll::Pending | Poll::Ready(None)) => {
                        let flushed = match ch.as_mut().poll_flush(cx) {
                            Poll::Ready(Err(e)) => return Polled::Err(name(&e)),
                            Poll::Ready(Ok(())) => true,
                            Poll::Pending => false,
                        };
                        if r.is_ready() && flushed && outbox.borrow().is_empty() {
                            Polled::End
                        } else {
                            Polled::Pending
                        }
                    }
                    Poll::Ready(Some(Err(e))) => Polled::Err(name(&e)),
                    Poll::Ready(Some(Ok(t))) => Polled::Tracked(t),
                }
            }};
        }
        match self {
            Srv::RawPlain(c) => go!(c),
            Srv::RawLimited(c) => go!(c),
            _ => unreachable!(),
        }
    }
    fn is_raw(&self) -> bool {
        matches!(self, Srv::RawPlain(_) | Srv::RawLimited(_))
    }
    fn reported(&self) -> Option<usize> {
        match self {
            Srv::Plain(r) => Some(r.channel().in_flight_requests()),
            Srv::Limited(r) => Some(r.channel().in_flight_requests()),
            Srv::Exec(_) => None,
            Srv::RawPlain(c) => Some(c.in_flight_requests()),
            Srv::RawLimited(c) => Some(c.in_flight_requests()),
        }
    }
    fn lens(&self) -> Option<(usize, usize)> {
        match self {
            Srv::Plain(r) => {
                let l = r.channel().verif_in_flight();
                Some((l.entries, l.timers))
            }
            Srv::Limited(r) => {
                let l = r.channel().get_ref().verif_in_flight();
                Some((l.entries, l.timers))
            }
            Srv::Exec(_) => None,
            Srv::RawPlain(c) => {
                let l = c.verif_in_flight();
                Some((l.entries, l.timers))
            }
            Srv::RawLimited(c) => {
                let l = c.get_ref().verif_in_flight();
                Some((l.entries, l.timers))
            }
        }
    }
}

struct ReqMeta {
    id: u64,
    d: SDl,
    r_c: Instant,
}
struct HTask {
    fut: Option<HFut>,
    flag: std::sync::Arc<WakeFlag>,
    seq: Option<usize>,
    polled: bool,
}

pub fn run(cfg: &Cfg) -> Outcome {
    let rt = tokio::runtime::Builder::new_current_thread()
        .enable_time()
        .start_paused(true)
        .build()
        .unwrap();
    let mut out = Outcome::default();
    out.desc = cfg.to_json();
    let wall0 = Instant::now();
    rt.block_on(run_inner(cfg, &mut out));
    if wall0.elapsed() > Duration::from_secs(120) && out.viols.is_empty() {
        out.inconclusive = Some("scenario wall-clock watchdog (120 s)".into());
    }
    out
}

fn far_instant(base: Instant) -> Instant {
    let mut cur = base;
    // binary descent: the largest representable instant in about 130 additions
    let mut stepd = Duration::from_secs(1 << 62);
    while stepd >= Duration::from_secs(1) {
        if let Some(n) = cur.checked_add(stepd) {
            cur = n;
        }
        stepd /= 2;
    }
    cur
}

async fn run_inner(cfg: &Cfg, out: &mut Outcome) {
    let mut rng = Rng::new(cfg.seed);
    let t0 = tokio::time::Instant::now();
    let vms = move || t0.elapsed().as_millis() as u64;
    let (mock, st) = new_mock::<Response<String>, ClientMessage<String>>("server", cfg.model, cfg.cap, cfg.fault);
    let sh = Rc::new(RefCell::new(HShared {
        ev: vec![],
        gates: BTreeMap::new(),
        next_inv: 0,
        step: 0,
        t0,
        steps_per_handler: cfg.steps_per_handler,
        err_pct: cfg.err_pct,
        ctx_seen: HashMap::new(),
        cursor: (0, 0, false),
        synth_yield: cfg.mode == Mode::Execute,
    }));
    let serve_fn = {
        let sh = sh.clone();
        serve(move |ctx: context::Context, req: String| {
            let sh = sh.clone();
            async move {
                let inv;
                let nsteps;
                let err;
                {
                    let mut s = sh.borrow_mut();
                    inv = s.next_inv;
                    s.next_inv += 1;
                    let seq: usize = req.trim_start_matches('q').parse().unwrap_or(usize::MAX);
                    let v = s.v();
                    s.ev.push(Ev::HStart { inv, seq, v });
                    s.ctx_seen.insert(seq, ctx);
                    nsteps = s.steps_per_handler;
                    err = (inv as u64 * 37 + 11) % 100 < s.err_pct;
                }
                let mut g = DropLog { sh: sh.clone(), inv, finished: false };
                for n in 0..nsteps {
                    Gate { sh: sh.clone(), inv, n }.await;
                }
                g.finished = true;
                {
                    let mut s = sh.borrow_mut();
                    let (step, v) = (s.step, s.v());
                    s.ev.push(Ev::HFinish { inv, v, step });
                }
                if err {
                    Err(ServerError::new(std::io::ErrorKind::InvalidData, format!("h{inv}")))
                } else {
                    Ok::<String, ServerError>(format!("h{inv}"))
                }
            }
        })
    };
    // every shipped way of building the same channel (chosen by the seed): `new` / `with_defaults`,
    // bare or handed out by `Incoming::max_channels_per_key`, the limiter from `Channel::
    // max_concurrent_requests` or from `Incoming::max_concurrent_requests_per_channel`
    use tarpc::server::incoming::Incoming;
    let default_buf = Config::default().pending_response_buffer;
    let bare = if cfg.resp_buf == default_buf && cfg.seed & 4 == 0 { BaseChannel::with_defaults(mock) } else { BaseChannel::new(Config { pending_response_buffer: cfg.resp_buf }, mock) };
    let via_listener = cfg.seed & 8 == 0 && cfg.script.is_empty();
    let limiter_from_incoming = cfg.seed & 16 == 0 && cfg.script.is_empty();
    let base = if via_listener {
        let mut l = Box::pin(futures::stream::iter([bare]).max_channels_per_key(1, |_: &Bare| 0u8));
        Base::T(Box::pin(l.next().now_or_never().flatten().expect("harness: the listener yields its only channel")))
    } else {
        Base::B(Box::pin(bare))
    };
    out.cells.push(format!("server.built.{}{}", if via_listener { "tracked-channel" } else { "bare" }, if cfg.limit.is_some() { if limiter_from_incoming { "+incoming-limiter" } else { "+channel-limiter" } } else { "" }));
    let limited = |base: Base, l: usize| -> MaxRequests<Base> {
        if limiter_from_incoming {
            let mut s = Box::pin(futures::stream::iter([base]).max_concurrent_requests_per_channel(l));
            s.next().now_or_never().flatten().expect("harness: the limiter stream yields its only channel")
        } else {
            base.max_concurrent_requests(l)
        }
    };
    let mut srv: Option<Srv> = Some(match (cfg.mode, cfg.limit) {
        (Mode::Requests, None) => Srv::Plain(Box::pin(base.requests())),
        (Mode::Requests, Some(l)) => Srv::Limited(Box::pin(limited(base, l).requests())),
        (Mode::Execute, None) => Srv::Exec(Box::pin(base.execute(serve_fn.clone()).map(|f| Box::pin(f) as HFut))),
        (Mode::Execute, Some(l)) => Srv::Exec(Box::pin(limited(base, l).execute(serve_fn.clone()).map(|f| Box::pin(f) as HFut))),
        (Mode::Raw, None) => Srv::RawPlain(Box::pin(base)),
        (Mode::Raw, Some(l)) => Srv::RawLimited(Box::pin(limited(base, l))),
    });
    let outbox: Rc<RefCell<std::collections::VecDeque<Response<String>>>> = Rc::new(RefCell::new(Default::default()));
    let sflag = flag();
    let mut htasks: Vec<HTask> = vec![];
    let mut held: Vec<(InFlightRequest<String, String>, usize)> = vec![];
    let mut metas: BTreeMap<usize, ReqMeta> = BTreeMap::new();
    let mut next_seq = 0usize;
    let mut next_id = 0u64;
    let mut to_send = cfg.nmsgs;
    let mut eof_sent = false;
    let mut ended = false;
    let mut stream_err: Option<String> = None;
    let mut panics: Vec<String> = vec![];
    let mut step: u64 = 0;
    let mut final_phase = 0usize;
    let mut script: std::collections::VecDeque<SAct> = cfg.script.iter().cloned().collect();
    let mut injected_reqs: Vec<usize> = vec![]; // seqs of injected requests in order
    let weight_set = [0u64, 1, 1, 1, 2, 4, 16];
    // categories: 0 server,1 handler,2 inject,3 gate,4 app(held/drop),5 transport,6 clock
    let mut weights: [u64; 7] = [1; 7];
    if rng.chance(2, 3) {
        for x in weights.iter_mut() {
            *x = *rng.pick(&weight_set);
        }
        weights[6] = *rng.pick(&[1, 1, 2, 4]);
    }
    let mut tlog: Vec<String> = vec![];

    // per-id harness view used by the peer generator: which seq currently "owns" an id
    #[derive(Clone, Copy, PartialEq, Debug)]
    enum IdState {
        InFlightCertain, // yielded or at least injected, long deadline, not cancelled, no response
        Completed,       // response written
        Other,           // cancelled / short deadline / unknown fate
    }

    loop {
        step += 1;
        sh.borrow_mut().step = step;
        set_vnow(vms(), step);
        if step > 200_000 {
            out.inconclusive = Some("scenario step limit".into());
            break;
        }
        // ---- absorb transport events into the common log
        absorb(&st, &sh);
        let srv_alive = srv.is_some();
        let mut acts: Vec<(usize, SAct)> = vec![];
        if srv_alive && sflag.is_woken() {
            acts.push((0, SAct::PollServer));
        }
        for (i, h) in htasks.iter().enumerate() {
            if h.fut.is_some() {
                if h.flag.is_woken() {
                    acts.push((1, SAct::PollH(i)));
                }
                if (rng.below(1000) as u64) < cfg.droph_pct * 10 / 4 && cfg.script.is_empty() && h.seq.is_some() && cfg.mode != Mode::Raw {
                    acts.push((4, SAct::DropH(i)));
                }
            }
        }
        let runnable = !acts.is_empty() && acts.iter().any(|(c, _)| *c <= 1);
        // peer messages
        if srv_alive && !eof_sent {
            if to_send > 0 {
                let msg = gen_peer_msg(cfg, &mut rng, &sh, &st, &metas, &mut next_id);
                acts.push((2, SAct::Inject(msg)));
            } else if cfg.eof && script.is_empty() {
                acts.push((2, SAct::Inject(PeerMsg::Eof)));
            }
        }
        {
            let s = sh.borrow();
            for (inv, g) in s.gates.iter() {
                if g.1.is_some() && g.0 == 0 && cfg.auto_gates {
                    acts.push((3, SAct::OpenGate(*inv)));
                }
            }
        }
        for i in 0..held.len() {
            acts.push((4, SAct::ExecHeld(i)));
            if rng.chance(1, 3) {
                acts.push((4, SAct::DropHeld(i)));
            }
        }
        {
            let s = st.borrow();
            match s.model {
                Model::Coupled => {
                    if !s.flush_open {
                        acts.push((5, SAct::OpenFlush));
                    } else if cfg.block_transport && rng.chance(1, 6) && final_phase == 0 && srv_alive {
                        acts.push((5, SAct::CloseFlush));
                    }
                }
                Model::Independent => {
                    if s.slots < s.cap {
                        acts.push((5, SAct::FreeSlot));
                    }
                }
            }
        }
        let env_enabled = acts.iter().any(|(c, a)| *c >= 2 && !matches!(a, SAct::CloseFlush));
        // ---- idle point
        if !runnable {
            let (reported, lens) = match srv.as_ref() {
                Some(s) => (s.reported(), s.lens()),
                None => (None, None),
            };
            let (writable, inbox, unflushed) = {
                let s = st.borrow();
                (s.writable_now(), s.inbox.len(), s.unflushed())
            };
            let v = vms();
            let mut s = sh.borrow_mut();
            let dup = matches!(s.ev.last(), Some(Ev::Idle { v: lv, reported: lr, lens: ll, writable: lw, inbox: li, .. }) if *lv == v && *lr == reported && *ll == lens && *lw == writable && *li == inbox);
            if !dup && srv_alive {
                s.ev.push(Ev::Idle { v, step, reported, lens, writable, inbox, unflushed });
            }
        }
        // ---- choose
        let act: SAct;
        if let Some(front) = script.front().cloned() {
            match front {
                SAct::RunIdle => {
                    if runnable {
                        let r: Vec<&(usize, SAct)> = acts.iter().filter(|(c, _)| *c <= 1).collect();
                        act = r[rng.below(r.len())].1.clone();
                    } else {
                        script.pop_front();
                        continue;
                    }
                }
                a => {
                    script.pop_front();
                    act = a;
                }
            }
        } else if !runnable && !env_enabled {
            if !srv_alive {
                break;
            }
            final_phase += 1;
            if final_phase > 3 * cfg.nmsgs + 30 {
                break;
            }
            let now = vms();
            // next timer that can still fire
            let next_dl = {
                let s = sh.borrow();
                let mut best: Option<u64> = None;
                for e in s.ev.iter() {
                    if let Ev::In { seq, kind: "req", v, .. } = e {
                        if let Some(m) = metas.get(seq) {
                            let t = v + m.d.d_ms().min(YEAR_MS) + 3;
                            if t > now && best.map(|b| t < b).unwrap_or(true) {
                                best = Some(t);
                            }
                        }
                    }
                }
                best
            };
            act = SAct::Advance(next_dl.map(|d| d - now).unwrap_or(1000).max(1));
        } else {
            let mut cands = acts.clone();
            if rng.chance(1, 5) || !runnable {
                let now = vms();
                let mut choices = vec![1u64, 1, 2, 5, 10, 50, 500];
                let s = sh.borrow();
                let mut nd: Option<u64> = None;
                for e in s.ev.iter() {
                    if let Ev::In { seq, kind: "req", v, .. } = e {
                        if let Some(m) = metas.get(seq) {
                            if m.d.timed() {
                                let t = v + m.d.d_ms();
                                if t + 3 > now && nd.map(|b| t < b).unwrap_or(true) {
                                    nd = Some(t);
                                }
                            }
                        }
                    }
                }
                if let Some(d) = nd {
                    for delta in [-1i64, 0, 1, 2] {
                        let t = d as i64 + delta - now as i64;
                        // year-long jumps are left to the final phase (see DESIGN.md, finding F7)
                        if t > 0 && t < 4 * 3600 * 1000 {
                            choices.push(t as u64);
                            choices.push(t as u64);
                        }
                    }
                }
                cands.push((6, SAct::Advance(*rng.pick(&choices))));
            }
            let non_clock: u64 = cands.iter().filter(|(c, _)| *c != 6).map(|(c, _)| weights[*c]).sum();
            let mut wts = weights;
            if non_clock == 0 {
                for x in wts.iter_mut().take(6) {
                    *x = 1;
                }
            }
            let total: u64 = cands.iter().map(|(c, _)| wts[*c]).sum();
            let mut x = rng.next() % total.max(1);
            let mut chosen = cands[0].1.clone();
            for (c, a) in cands.iter() {
                if x < wts[*c] {
                    chosen = a.clone();
                    break;
                }
                x -= wts[*c];
            }
            act = chosen;
        }
        if !matches!(act, SAct::PollH(_)) {
            tlog.push(format!("{}@{} {:?}", step, vms(), act));
        }
        match act {
            SAct::RunIdle => {}
            SAct::PollServer => {
                if srv.is_none() {
                    continue;
                }
                sflag.clear();
                st.borrow_mut().begin_epoch(step);
                let w = waker(sflag.clone());
                // poll the stream until Pending, as a driver task does
                loop {
                    sh.borrow_mut().ev.push(Ev::PollCall);
                    let p = {
                        let s = srv.as_mut().unwrap();
                        let raw = s.is_raw();
                        let ob = outbox.clone();
                        catch_unwind(AssertUnwindSafe(|| match poll_unconstrained(&mut Context::from_waker(&w), |cx| Poll::Ready(if raw { s.raw_poll(cx, &ob) } else { s.poll(cx) })) {
                            Poll::Ready(x) => x,
                            Poll::Pending => Polled::Pending,
                        }))
                    };
                    st.borrow_mut().stamp_poll_end();
                    absorb(&st, &sh);
                    match p {
                        Err(pn) => {
                            let m = panic_msg(&pn);
                            tlog.push(format!("  server PANIC {m}"));
                            panics.push(m);
                            srv = None;
                            stream_err = Some("panic".into());
                            sh.borrow_mut().ev.push(Ev::ChannelDropped { step });
                            break;
                        }
                        Ok(Polled::Pending) => {
                            st.borrow_mut().on_task_pending();
                            break;
                        }
                        Ok(Polled::End) => {
                            let v = vms();
                            sh.borrow_mut().ev.push(Ev::End { v, step });
                            tlog.push("  stream -> End".into());
                            {
                                let m = st.borrow();
                                if m.dirty && !m.failed && !m.fatal_failure {
                                    out.viol("C10", "server-ended-before-flush", format!("the request stream ended while {} written responses were still unflushed", m.unflushed()));
                                }
                            }
                            st.borrow_mut().on_task_finished_orderly();
                            ended = true;
                            srv = None; // the channel is dropped
                            sh.borrow_mut().ev.push(Ev::ChannelDropped { step });
                            break;
                        }
                        Ok(Polled::Err(variant)) => {
                            tlog.push(format!("  stream -> Err({variant})"));
                            sh.borrow_mut().ev.push(Ev::StreamErr { variant: variant.clone(), step });
                            stream_err = Some(variant);
                            // "serving of that channel stops": the application drops the channel
                            srv = None;
                            sh.borrow_mut().ev.push(Ev::ChannelDropped { step });
                            break;
                        }
                        Ok(Polled::Tracked(t)) => {
                            // the application's part of the raw usage: an Abortable around the handler,
                            // the response queued for the channel's sink when it finishes
                            let tarpc::server::TrackedRequest { request, abort_registration, span: _, response_guard } = t;
                            let id = request.id;
                            let seq: usize = request.message.trim_start_matches('q').parse().unwrap_or(usize::MAX);
                            let v = vms();
                            sh.borrow_mut().ev.push(Ev::Yield { seq, id, v, step });
                            let sf = serve_fn.clone();
                            let ob = outbox.clone();
                            let fl = sflag.clone();
                            let fut: HFut = Box::pin(async move {
                                use tarpc::server::Serve;
                                let _guard = response_guard; // inert in this mode
                                let r = futures::future::Abortable::new(sf.serve(request.context, request.message), abort_registration).await;
                                if let Ok(message) = r {
                                    ob.borrow_mut().push_back(Response { request_id: id, message });
                                    futures::task::ArcWake::wake_by_ref(&fl);
                                }
                            });
                            htasks.push(HTask { fut: Some(fut), flag: flag(), seq: Some(seq), polled: false });
                        }
                        Ok(Polled::Fut(f)) => {
                            htasks.push(HTask { fut: Some(f), flag: flag(), seq: None, polled: false });
                        }
                        Ok(Polled::Req(ifr)) => {
                            let id = ifr.get().id;
                            let seq: usize = ifr.get().message.trim_start_matches('q').parse().unwrap_or(usize::MAX);
                            let v = vms();
                            sh.borrow_mut().ev.push(Ev::Yield { seq, id, v, step });
                            let k = rng.below(100) as u64;
                            if k < cfg.drop_pct {
                                sh.borrow_mut().ev.push(Ev::AppDrop { seq, v, step });
                                drop(ifr);
                            } else if k < cfg.drop_pct + cfg.hold_pct {
                                held.push((ifr, seq));
                            } else {
                                let fut: HFut = Box::pin(ifr.execute(serve_fn.clone()));
                                htasks.push(HTask { fut: Some(fut), flag: flag(), seq: Some(seq), polled: false });
                            }
                        }
                    }
                }
            }
            SAct::PollH(i) => {
                let h = &mut htasks[i];
                if h.fut.is_none() {
                    continue;
                }
                h.flag.clear();
                h.polled = true;
                let w = waker(h.flag.clone());
                let inv_before = sh.borrow().next_inv;
                let p = catch_unwind(AssertUnwindSafe(|| {
                    let f = h.fut.as_mut().unwrap();
                    poll_unconstrained(&mut Context::from_waker(&w), |cx| f.as_mut().poll(cx))
                }));
                if h.seq.is_none() {
                    // execute(): learn which request this future serves from the handler it started
                    let s = sh.borrow();
                    if s.next_inv == inv_before + 1 {
                        h.seq = s.ev.iter().rev().find_map(|e| match e {
                            Ev::HStart { inv, seq, .. } if *inv == inv_before => Some(*seq),
                            _ => None,
                        });
                    }
                }
                match p {
                    Err(pn) => {
                        panics.push(format!("handler task: {}", panic_msg(&pn)));
                        h.fut = None;
                    }
                    Ok(Poll::Ready(())) => h.fut = None,
                    Ok(Poll::Pending) => {}
                }
            }
            SAct::DropH(i) => {
                if htasks[i].fut.is_none() {
                    continue;
                }
                let v = vms();
                // which request does this future serve? (Execute mode: learned from HStart)
                let seq = htasks[i].seq;
                if let Some(seq) = seq {
                    sh.borrow_mut().ev.push(Ev::AppDrop { seq, v, step });
                } else {
                    // Execute mode: mark by invocation after the fact (see oracle: AppDrop by inv)
                    sh.borrow_mut().ev.push(Ev::AppDrop { seq: usize::MAX - i, v, step });
                }
                htasks[i].fut = None;
            }
            SAct::ExecHeld(i) => {
                if i >= held.len() {
                    continue;
                }
                let (ifr, seq) = held.remove(i);
                let fut: HFut = Box::pin(ifr.execute(serve_fn.clone()));
                htasks.push(HTask { fut: Some(fut), flag: flag(), seq: Some(seq), polled: false });
            }
            SAct::DropHeld(i) => {
                if i >= held.len() {
                    continue;
                }
                let (ifr, seq) = held.remove(i);
                let v = vms();
                sh.borrow_mut().ev.push(Ev::AppDrop { seq, v, step });
                drop(ifr);
            }
            SAct::Fresh(d) => {
                next_id += 1;
                inject(&st, &sh, &mut metas, &mut next_seq, &mut injected_reqs, PeerMsg::Req { id: next_id, d });
            }
            SAct::CancelNth(n) => {
                if let Some(seq) = injected_reqs.get(n) {
                    let id = metas[seq].id;
                    inject(&st, &sh, &mut metas, &mut next_seq, &mut injected_reqs, PeerMsg::Cancel { id });
                }
            }
            SAct::DupNth(n) => {
                if let Some(seq) = injected_reqs.get(n) {
                    let id = metas[seq].id;
                    inject(&st, &sh, &mut metas, &mut next_seq, &mut injected_reqs, PeerMsg::Req { id, d: SDl::Ms(10_000) });
                }
            }
            SAct::DupNthD(n, d) => {
                if let Some(seq) = injected_reqs.get(n) {
                    let id = metas[seq].id;
                    inject(&st, &sh, &mut metas, &mut next_seq, &mut injected_reqs, PeerMsg::Req { id, d });
                }
            }
            SAct::Inject(m) => {
                if matches!(m, PeerMsg::Eof) {
                    eof_sent = true;
                    st.borrow_mut().env_eof();
                } else {
                    to_send = to_send.saturating_sub(1);
                    inject(&st, &sh, &mut metas, &mut next_seq, &mut injected_reqs, m);
                }
            }
            SAct::OpenGate(inv) => {
                let mut s = sh.borrow_mut();
                if let Some(g) = s.gates.get_mut(&inv) {
                    g.0 += 1;
                    if let Some(w) = g.1.take() {
                        w.wake();
                    }
                }
            }
            SAct::OpenAllGates => {
                let mut s = sh.borrow_mut();
                for (_, g) in s.gates.iter_mut() {
                    g.0 += 8;
                    if let Some(w) = g.1.take() {
                        w.wake();
                    }
                }
            }
            SAct::OpenFlush => st.borrow_mut().env_open_flush(),
            SAct::CloseFlush => st.borrow_mut().env_close_flush(),
            SAct::FreeSlot => {
                let n = 1 + rng.below(cfg.cap);
                st.borrow_mut().env_free_slots(n)
            }
            SAct::Advance(d) => {
                set_vnow(vms() + d, step);
                tokio::time::advance(Duration::from_millis(d)).await;
            }
        }
    }
    absorb(&st, &sh);
    // ---- tear down: drop everything that is still alive, channel first (C09: handlers aborted when it is dropped)
    let channel_was_alive = srv.is_some();
    if channel_was_alive {
        sh.borrow_mut().ev.push(Ev::ChannelDropped { step: step + 1 });
    }
    drop(srv);
    // give every remaining handler task one poll: after the channel is gone they must all end
    let mut survivors = 0;
    for h in htasks.iter_mut() {
        if let Some(f) = h.fut.as_mut() {
            let w = waker(h.flag.clone());
            let p = catch_unwind(AssertUnwindSafe(|| poll_unconstrained(&mut Context::from_waker(&w), |cx| f.as_mut().poll(cx))));
            if matches!(p, Ok(Poll::Pending)) {
                survivors += 1;
            }
        }
    }
    let held_left = held.len();
    drop(held);
    htasks.clear();
    oracles(cfg, &st, &sh, &metas, ended, stream_err, eof_sent, &panics, survivors, held_left, vms(), out);
    let mut h = FNV0;
    for e in tlog.iter() {
        let k = e.split_whitespace().nth(1).unwrap_or("");
        let k = k.split('(').next().unwrap_or(k);
        fnv(&mut h, k);
    }
    for (op, r) in st.borrow().oplog.iter() {
        h = (h ^ ((*op as u64) << 3 | *r as u64)).wrapping_mul(1099511628211);
    }
    for e in sh.borrow().ev.iter() {
        let k = match e {
            Ev::Inj { kind, .. } => kind,
            Ev::In { .. } => "in",
            Ev::Out { throttled: true, .. } => "thr",
            Ev::Out { .. } => "out",
            Ev::Yield { .. } => "yield",
            Ev::AppDrop { .. } => "appdrop",
            Ev::HStart { .. } => "hs",
            Ev::HPoll { .. } => "hp",
            Ev::HFinish { .. } => "hf",
            Ev::HDrop { finished: true, .. } => "hd1",
            Ev::HDrop { .. } => "hd0",
            Ev::Idle { .. } => "",
            Ev::End { .. } => "end",
            Ev::StreamErr { .. } => "err",
            Ev::EofSeen { .. } => "eof",
            Ev::ChannelDropped { .. } => "chd",
            Ev::PollCall => "",
        };
        fnv(&mut h, k);
    }
    out.sig = h;
    out.trace = tlog;
    for e in sh.borrow().ev.iter() {
        if !matches!(e, Ev::HPoll { .. } | Ev::PollCall) {
            out.trace.push(format!("    {:?}", e));
        }
    }
}

fn inject(
    st: &Rc<RefCell<State<ClientMessage<String>>>>,
    sh: &Rc<RefCell<HShared>>,
    metas: &mut BTreeMap<usize, ReqMeta>,
    next_seq: &mut usize,
    injected_reqs: &mut Vec<usize>,
    m: PeerMsg,
) {
    let seq = *next_seq;
    *next_seq += 1;
    match m {
        PeerMsg::Req { id, d } => {
            let mut c = context::current();
            let r_c = Instant::now();
            c.deadline = match d {
                SDl::Past => r_c.checked_sub(Duration::from_millis(5)).unwrap_or(r_c),
                SDl::Ms(m) => r_c + Duration::from_millis(m),
                SDl::Beyond(s) => r_c.checked_add(Duration::from_secs(s)).unwrap_or_else(|| far_instant(r_c)),
                SDl::Max => far_instant(r_c),
            };
            let mut tb = [0u8; 16];
            tb[..8].copy_from_slice(&(0xFEED_0000u64 + seq as u64).to_le_bytes());
            c.trace_context.trace_id = trace::TraceId::from(u128::from_le_bytes(tb));
            c.trace_context.span_id = trace::SpanId::from(0x7000 + seq as u64);
            metas.insert(seq, ReqMeta { id, d, r_c });
            injected_reqs.push(seq);
            sh.borrow_mut().ev.push(Ev::Inj { seq, kind: "req", id });
            st.borrow_mut().env_inject(
                ClientMessage::Request(Request { context: c, id, message: format!("q{seq}") }),
                seq,
            );
        }
        PeerMsg::Cancel { id } => {
            sh.borrow_mut().ev.push(Ev::Inj { seq, kind: "cancel", id });
            st.borrow_mut().env_inject(
                ClientMessage::Cancel { trace_context: trace::Context::default(), request_id: id },
                seq,
            );
        }
        PeerMsg::Eof => {}
    }
}

/// copy new transport events (reads / writes) into the common ordered log
fn absorb(st: &Rc<RefCell<State<ClientMessage<String>>>>, sh: &Rc<RefCell<HShared>>) {
    let s = st.borrow();
    let (mut ri, mut si, mut eof) = {
        let h = sh.borrow();
        h.cursor
    };
    let mut h = sh.borrow_mut();
    // reads and writes interleave; order them by (step, epoch) then reads before writes is not
    // known -> use the mock's per-event order: both vectors are appended in real order and each
    // absorb call happens after at most one poll, inside which order is reconstructed by `order`
    let mut pending: Vec<(u64, Ev)> = vec![];
    while ri < s.recv.len() {
        let r = &s.recv[ri];
        let kind = match r.item {
            Item::Req { .. } => "req",
            _ => "cancel",
        };
        pending.push((r.order, Ev::In { seq: r.seq, kind, id: r.item.id(), v: r.v_ms, step: r.step, epoch: r.epoch }));
        ri += 1;
    }
    while si < s.sent.len() {
        let x = &s.sent[si];
        if let Item::Resp { id, body } = &x.item {
            let throttled = matches!(body, Err((k, d)) if *k == std::io::ErrorKind::WouldBlock && d.contains("throttled"));
            let b = match body {
                Ok(b) => Ok(b.clone()),
                Err((_, d)) => Err(d.clone()),
            };
            if !x.write_failed {
                pending.push((x.order, Ev::Out { id: *id, body: b, throttled, v: x.v_ms, step: x.step }));
            }
        }
        si += 1;
    }
    if s.eof_seen && !eof {
        eof = true;
        pending.push((u64::MAX, Ev::EofSeen { step: s.step }));
    }
    pending.sort_by_key(|(o, _)| *o);
    let synth = h.synth_yield;
    let n = pending.len();
    for k in 0..n {
        let e = pending[k].1.clone();
        let mut extra = None;
        if synth {
            if let Ev::In { seq, kind: "req", id, v, step, .. } = &e {
                // execute() hides the hand-over: a request that is read is either refused for the
                // limit (the throttle response is written right after the read) or handed over
                let throttled_next = matches!(pending.get(k + 1), Some((_, Ev::Out { throttled: true, id: i2, .. })) if i2 == id);
                if !throttled_next {
                    extra = Some(Ev::Yield { seq: *seq, id: *id, v: *v, step: *step });
                }
            }
        }
        h.ev.push(e);
        if let Some(x) = extra {
            h.ev.push(x);
        }
    }
    h.cursor = (ri, si, eof);
}

fn gen_peer_msg(
    cfg: &Cfg,
    rng: &mut Rng,
    sh: &Rc<RefCell<HShared>>,
    _st: &Rc<RefCell<State<ClientMessage<String>>>>,
    metas: &BTreeMap<usize, ReqMeta>,
    next_id: &mut u64,
) -> PeerMsg {
    // classify every id used so far from observable events
    let s = sh.borrow();
    let mut owner: HashMap<u64, usize> = HashMap::new(); // id -> latest seq injected with this id
    for (seq, m) in metas.iter() {
        owner.insert(m.id, *seq);
    }
    let mut inv_seq: HashMap<usize, usize> = HashMap::new();
    let mut last_read: HashMap<u64, usize> = HashMap::new();
    let mut responded: BTreeSet<usize> = BTreeSet::new();
    let mut cancelled: BTreeSet<u64> = BTreeSet::new();
    let mut yielded: BTreeSet<usize> = BTreeSet::new();
    let mut appdropped: BTreeSet<usize> = BTreeSet::new();
    for e in s.ev.iter() {
        match e {
            Ev::HStart { inv, seq, .. } => {
                inv_seq.insert(*inv, *seq);
            }
            Ev::Out { body, throttled, id, .. } => {
                if *throttled {
                    if let Some(sq) = last_read.get(id) {
                        responded.insert(*sq);
                    }
                } else {
                    let b = match body {
                        Ok(b) | Err(b) => b,
                    };
                    if let Ok(inv) = b.trim_start_matches('h').parse::<usize>() {
                        if let Some(sq) = inv_seq.get(&inv) {
                            responded.insert(*sq);
                        }
                    }
                }
            }
            Ev::Inj { kind: "cancel", id, .. } => {
                cancelled.insert(*id);
            }
            Ev::In { kind: "req", seq, id, .. } => {
                last_read.insert(*id, *seq);
            }
            Ev::Yield { seq, .. } => {
                yielded.insert(*seq);
            }
            Ev::AppDrop { seq, .. } => {
                appdropped.insert(*seq);
            }
            _ => {}
        }
    }
    let mut certain: Vec<u64> = vec![]; // ids certainly in flight (for duplicates)
    let mut completed: Vec<u64> = vec![]; // ids whose latest use completed (for reuse)
    let mut live: Vec<u64> = vec![];
    for (id, sq) in owner.iter() {
        let m = &metas[sq];
        if responded.contains(sq) {
            completed.push(*id);
        } else if !cancelled.contains(id) && !appdropped.contains(sq) {
            live.push(*id);
            if yielded.contains(sq) && m.d.d_ms() >= 10_000 {
                certain.push(*id);
            }
        }
    }
    certain.sort();
    completed.sort();
    live.sort();
    let k = rng.below(100) as u64;
    if k < cfg.cancel_pct && !owner.is_empty() {
        // cancel: live / finished / unknown id
        let c = rng.below(10);
        let id = if c < 6 && !live.is_empty() {
            *rng.pick(&live)
        } else if c < 8 && !completed.is_empty() {
            *rng.pick(&completed)
        } else {
            9_000_000 + rng.below(5) as u64
        };
        return PeerMsg::Cancel { id };
    }
    // (execute() hides the hand-over, so a duplicate could not be told from a fresh request there)
    if k < cfg.cancel_pct + cfg.dup_pct && !certain.is_empty() && cfg.mode != Mode::Execute {
        // the duplicate may carry any deadline (it must be ignored, deadline included)
        return PeerMsg::Req { id: *rng.pick(&certain), d: *rng.pick(&[SDl::Ms(10_000), SDl::Ms(20), SDl::Ms(3), SDl::Past]) };
    }
    if k < cfg.cancel_pct + cfg.dup_pct + cfg.reuse_pct && !completed.is_empty() {
        // id reused only after completion (its response was written)
        return PeerMsg::Req { id: *rng.pick(&completed), d: *rng.pick(&cfg.deadlines) };
    }
    *next_id += 1;
    let id = if cfg.extreme && rng.chance(1, 4) { *rng.pick(&[0u64, u64::MAX, u64::MAX - 1, 1 << 32]) } else { *next_id };
    // never collide with an id whose earlier use has not completed
    let id = if owner.contains_key(&id) && !completed.contains(&id) { *next_id + 1_000 } else { id };
    PeerMsg::Req { id, d: *rng.pick(&cfg.deadlines) }
}

#[derive(Default, Debug)]
struct Life {
    id: u64,
    injected_at: usize,
    read: Option<(usize, u64, u64)>, // (event idx, v, step)
    dup_ignored: bool,
    yielded: Option<usize>,
    inv: Option<usize>,
    finish: Option<usize>,
    hdrop: Option<(usize, bool, u64, Instant)>,
    appdrop: Option<usize>,
    cancel_read: Option<usize>,
    responses: Vec<(usize, bool)>, // (event idx, throttled)
    hpolls_after_cancel: usize,
}

#[allow(clippy::too_many_arguments)]
fn oracles(
    cfg: &Cfg,
    st: &Rc<RefCell<State<ClientMessage<String>>>>,
    sh: &Rc<RefCell<HShared>>,
    metas: &BTreeMap<usize, ReqMeta>,
    ended: bool,
    stream_err: Option<String>,
    eof_sent: bool,
    panics: &[String],
    survivors: usize,
    _held_left: usize,
    now: u64,
    out: &mut Outcome,
) {
    let s = st.borrow();
    let h = sh.borrow();
    let ev = &h.ev;
    out.viols.extend(s.viols.iter().cloned());
    for p in panics {
        if p.contains("VERIF-SPIN") {
            continue;
        }
        let prop = if cfg.fault.is_some() { "C09" } else { "C16" };
        out.viols.push(Viol::new(prop, "panic", format!("panic in server code: {p}")));
    }
    let limit = cfg.limit;
    let real_slack_ms = 3u64;
    // --- timing helpers
    let lb = |seq: &usize, v_read: u64, real_after: Option<Instant>| -> u64 {
        let m = &metas[seq];
        let q = real_after.map(|r| r.saturating_duration_since(m.r_c)).unwrap_or_default();
        v_read + Duration::from_millis(m.d.d_ms().min(YEAR_MS)).saturating_sub(q).as_millis() as u64
    };
    // read brackets from the mock
    let mut read_real: HashMap<usize, (Instant, Instant)> = HashMap::new();
    for r in s.recv.iter() {
        // the timer is armed after the read returned and before the poll ended
        read_real.insert(r.seq, (r.real_before, r.poll_end.unwrap_or_else(Instant::now)));
    }
    // ---------------- pass 1: lifecycles, with the harness's model of the tracked id set
    let mut life: BTreeMap<usize, Life> = BTreeMap::new();
    let mut inv_seq: HashMap<usize, usize> = HashMap::new();
    // id -> seq that currently owns the id in the channel's table, as far as the harness can tell
    let mut tracked: HashMap<u64, usize> = HashMap::new();
    let mut channel_dropped_at: Option<usize> = None;
    let mut appdrop_by_task: Vec<(usize, usize)> = vec![]; // (event idx, marker)
    for (i, e) in ev.iter().enumerate() {
        match e {
            Ev::Inj { seq, kind: "req", id } => {
                let l = life.entry(*seq).or_default();
                l.id = *id;
                l.injected_at = i;
            }
            Ev::In { seq, kind, id, v, step, .. } => {
                if *kind == "req" {
                    let l = life.entry(*seq).or_default();
                    l.id = *id;
                    l.read = Some((i, *v, *step));
                    out.count("requests_read", 1);
                } else {
                    out.count("cancels_read", 1);
                    if let Some(sq) = tracked.remove(id) {
                        let l = life.entry(sq).or_default();
                        if l.cancel_read.is_none() {
                            l.cancel_read = Some(i);
                        }
                    } else if life.values().any(|l| l.id == *id && !l.responses.is_empty()) {
                        out.cells.push("C04.cancel.response-written".into());
                        out.nontrivial("C04");
                    } else {
                        out.cells.push("C04.cancel.unknown-or-ended".into());
                    }
                }
            }
            Ev::Yield { seq, id, .. } => {
                let l = life.entry(*seq).or_default();
                if l.yielded.is_some() {
                    out.viols.push(Viol::new("C08", "yielded-twice", format!("request seq {seq} (id {id}) was offered to the application twice")));
                }
                l.yielded = Some(i);
                tracked.insert(*id, *seq);
                out.count("requests_yielded", 1);
            }
            Ev::HStart { inv, seq, .. } => {
                inv_seq.insert(*inv, *seq);
                let l = life.entry(*seq).or_default();
                if l.inv.is_some() {
                    out.viols.push(Viol::new("C08", "two-invocations", format!("two handler invocations for request seq {seq}")));
                }
                l.inv = Some(*inv);
                out.count("handlers_started", 1);
            }
            Ev::HPoll { inv, .. } => {
                if let Some(sq) = inv_seq.get(inv) {
                    let l = life.entry(*sq).or_default();
                    if l.cancel_read.is_some() {
                        l.hpolls_after_cancel += 1;
                    }
                }
            }
            Ev::HFinish { inv, .. } => {
                if let Some(sq) = inv_seq.get(inv) {
                    life.entry(*sq).or_default().finish = Some(i);
                }
            }
            Ev::HDrop { inv, finished, v, r, .. } => {
                if let Some(sq) = inv_seq.get(inv) {
                    life.entry(*sq).or_default().hdrop = Some((i, *finished, *v, *r));
                }
            }
            Ev::AppDrop { seq, .. } => {
                if *seq > usize::MAX / 2 {
                    appdrop_by_task.push((i, usize::MAX - *seq));
                } else {
                    life.entry(*seq).or_default().appdrop = Some(i);
                    // the channel learns of it at its next poll; the harness model: leaves the table
                    let id = life[seq].id;
                    if tracked.get(&id) == Some(seq) {
                        tracked.remove(&id);
                    }
                }
            }
            Ev::Out { id, body, throttled, .. } => {
                out.count("responses_written", 1);
                if *throttled {
                    // attribute to the most recent read, not yielded, unanswered request with this id
                    let cand = life
                        .iter()
                        .filter(|(_, l)| l.id == *id && l.read.is_some() && l.yielded.is_none() && l.responses.is_empty() && l.read.unwrap().0 < i)
                        .map(|(sq, _)| *sq)
                        .last();
                    match cand {
                        Some(sq) => life.get_mut(&sq).unwrap().responses.push((i, true)),
                        None => out.viols.push(Viol::new("C12", "throttle-unattributable", format!("a throttle response for id {id} was written but no read, un-yielded, unanswered request with that id exists"))),
                    }
                } else {
                    let b = match body {
                        Ok(b) | Err(b) => b,
                    };
                    let inv: Option<usize> = b.trim_start_matches('h').parse().ok();
                    match inv.and_then(|n| inv_seq.get(&n)) {
                        None => out.viols.push(Viol::new("C08", "response-from-nowhere", format!("response {b} for id {id} does not come from any handler invocation on this channel"))),
                        Some(sq) => {
                            let l = life.get_mut(sq).unwrap();
                            if l.id != *id {
                                out.viols.push(Viol::new("C08", "response-wrong-id", format!("handler result {b} of request seq {sq} (id {}) was transmitted bearing id {id}", l.id)));
                            }
                            l.responses.push((i, false));
                            if tracked.get(id) == Some(sq) {
                                tracked.remove(id);
                            }
                        }
                    }
                }
            }
            Ev::ChannelDropped { .. } => {
                if channel_dropped_at.is_none() {
                    channel_dropped_at = Some(i);
                }
            }
            _ => {}
        }
    }
    // Execute mode: app drops are recorded by task; attribute via the next unfinished HDrop
    for (i, _marker) in appdrop_by_task.iter() {
        if let Some(Ev::HDrop { inv, finished: false, .. }) = ev.get(i + 1) {
            if let Some(sq) = inv_seq.get(inv) {
                life.entry(*sq).or_default().appdrop = Some(*i);
            }
        }
    }
    // was the request a duplicate of an id in flight (as far as certain)? -> decided in pass 2
    // ---------------- pass 2: time-ordered model: C12 / C11 / C06-late / C08-dup / C10
    #[derive(Clone, Copy, PartialEq)]
    enum E {
        None,
        Certain,
    }
    let mut yielded: BTreeSet<usize> = BTreeSet::new();
    let mut ended_set: BTreeSet<usize> = BTreeSet::new(); // certainly ended (response written / cancel read)
    let mut appdropped: BTreeSet<usize> = BTreeSet::new();
    let mut v_read: HashMap<usize, u64> = HashMap::new();
    let mut alive_handlers: BTreeMap<usize, usize> = BTreeMap::new(); // inv -> seq
    let mut pending_read: Option<(usize, usize, usize)> = None; // (seq, certain, possible)
    let exp_possible = |sq: &usize, v: u64, v_read: &HashMap<usize, u64>| -> bool {
        let m = &metas[sq];
        if !m.d.timed() {
            return m.d.d_ms() < YEAR_MS || v + real_slack_ms >= v_read[sq] + YEAR_MS - 10;
        }
        v + real_slack_ms >= lb(sq, v_read[sq], read_real.get(sq).map(|x| x.1))
    };
    let exp_certain = |sq: &usize, v: u64, v_read: &HashMap<usize, u64>| -> bool {
        let m = &metas[sq];
        if !m.d.timed() {
            return false;
        }
        let q = read_real.get(sq).map(|x| x.0.saturating_duration_since(m.r_c)).unwrap_or_default();
        let rem = Duration::from_millis(m.d.d_ms()).saturating_sub(q);
        v > v_read[sq] + rem.as_millis() as u64 + 1 + real_slack_ms
    };
    let _ = E::None;
    let _ = E::Certain;
    let mut eof_seen_at: Option<usize> = None;
    let mut outside_quantifier = false;
    let mut last_in_was_noop_cancel = false;
    let mut last_in_was_dup = false;
    let mut must_refuse: Vec<usize> = vec![];
    let mut strict_of: HashMap<usize, usize> = HashMap::new();
    let mut last_was_at_limit_blocked = false;
    let mut idle_f6: Vec<(usize, u64, bool)> = vec![];
    let mut appdropped_before_call: BTreeSet<usize> = BTreeSet::new();
    // requests that were certainly in flight when a duplicate of their id was read
    let mut had_dup: BTreeSet<usize> = BTreeSet::new();
    // the request (seq) whose cancellation was read earlier in the current poll of the channel
    let mut cancel_freed_in_this_poll: Option<usize> = None;
    for (i, e) in ev.iter().enumerate() {
        match e {
            Ev::PollCall => {
                // abandonments the channel has been notified of before this poll begins
                appdropped_before_call = appdropped.clone();
                cancel_freed_in_this_poll = None;
            }
            Ev::In { seq, kind, id, v, .. } => {
                if *kind == "req" {
                    last_in_was_noop_cancel = false;
                    last_in_was_dup = false;
                    v_read.insert(*seq, *v);
                    let certain = yielded
                        .iter()
                        .filter(|q| !ended_set.contains(q) && !appdropped.contains(q) && !exp_possible(q, *v, &v_read))
                        .count();
                    let possible = yielded.iter().filter(|q| !ended_set.contains(q)).count();
                    // requests the application abandoned before this poll began do not count either
                    let possible_strict = yielded.iter().filter(|q| !ended_set.contains(q) && !appdropped_before_call.contains(q)).count();
                    strict_of.insert(*seq, possible_strict);
                    // duplicate-in-flight?
                    let dup_certain = yielded.iter().any(|q| life[q].id == *id && !ended_set.contains(q) && !appdropped.contains(q) && !exp_possible(q, *v, &v_read));
                    let dup_possible = yielded.iter().any(|q| life[q].id == *id && !ended_set.contains(q));
                    // C08's quantifier: fresh ids, duplicates of ids in flight, ids reused after
                    // *completion*. An id reused after its first use was cancelled, expired or
                    // abandoned (leftovers may exist) is outside it: the scenario is not judged.
                    let completed_before = |q: &usize| life[q].responses.iter().any(|r| r.0 < i);
                    if yielded.iter().any(|q| life[q].id == *id && !completed_before(q)) && !dup_certain {
                        outside_quantifier = true;
                    }
                    if dup_certain {
                        for q in yielded.iter() {
                            if life[q].id == *id && !ended_set.contains(q) && !appdropped.contains(q) && !exp_possible(q, *v, &v_read) {
                                had_dup.insert(*q);
                            }
                        }
                    }
                    let l = life.get_mut(seq).unwrap();
                    if dup_certain {
                        last_in_was_dup = true;
                        l.dup_ignored = true;
                        out.cells.push("C08.duplicate-while-in-flight".into());
                        if l.yielded.is_some() {
                            out.viols.push(Viol::new("C08", "duplicate-yielded", format!("request seq {seq} reuses id {id} which is certainly still in flight, yet it was offered to the application")));
                        }
                    } else if !dup_possible {
                        // must be offered exactly once (or throttled)
                        if l.yielded.is_none() && l.responses.iter().all(|r| !r.1) && channel_dropped_at.map(|c| c > i + 3).unwrap_or(true) && stream_err.is_none() {
                            // allowed only if the run ended right after; checked by C08 'not-offered' below using idle evidence
                            if ev[i..].iter().any(|x| matches!(x, Ev::Idle { .. })) {
                                out.viols.push(Viol::new("C08", "not-offered", format!("request seq {seq} (id {id}) was read, is not a duplicate of an in-flight id, but was never offered to the application nor throttled")));
                            }
                        }
                    }
                    if !dup_certain {
                        pending_read = Some((*seq, certain, possible));
                        if let Some(l) = limit {
                            if certain >= l && !dup_possible {
                                must_refuse.push(*seq);
                            }
                        }
                    }
                } else {
                    last_in_was_dup = false;
                    last_in_was_noop_cancel = true;
                    if let Some(q) = yielded.iter().rev().find(|q| life[q].id == *id && !ended_set.contains(q)).cloned() {
                        ended_set.insert(q);
                        last_in_was_noop_cancel = false;
                        cancel_freed_in_this_poll = Some(q);
                    }
                }
            }
            Ev::Yield { seq, .. } => {
                if let (Some(l), Some((sq, certain, _))) = (limit, pending_read) {
                    if sq == *seq && certain >= l {
                        out.viols.push(Viol::new("C12", "handed-over-limit", format!("request seq {seq} was handed to the application while certainly {certain} >= L={l} requests were in flight")));
                    }
                    if sq == *seq && l > 0 && certain + 1 == l {
                        out.cells.push("C12.admitted-at-L-1".into());
                    }
                }
                if let Some((sq, _, _)) = pending_read {
                    if sq == *seq {
                        pending_read = None;
                    }
                }
                yielded.insert(*seq);
            }
            Ev::HStart { inv, seq, .. } => {
                alive_handlers.insert(*inv, *seq);
            }
            Ev::HDrop { inv, .. } => {
                alive_handlers.remove(inv);
            }
            Ev::Out { throttled, body, id, .. } => {
                if *throttled {
                    match (limit, pending_read) {
                        (Some(l), Some((sq, _c, possible))) if life[&sq].id == *id => {
                            if possible < l {
                                out.viols.push(Viol::new("C12", "throttled-below-limit", format!("request seq {sq} was refused although at most {possible} < L={l} requests were in flight when it was read")));
                                if let Some(cq) = cancel_freed_in_this_poll {
                                    // C04: a cancelled request no longer counts as in flight, with a per-channel limit too
                                    out.viols.push(Viol::new("C04", "cancelled-request-still-occupies-slot", format!("the cancellation of request seq {cq} was read, then request seq {sq} in the same poll; it was refused by the limiter (L={l}) although only {possible} requests were in flight: the cancelled request still counted")));
                                }
                            } else if strict_of.get(&sq).map(|p| *p < l).unwrap_or(false) {
                                out.viols.push(Viol::new("C12", "throttled-after-abandonment", format!("request seq {sq} was refused although only {} < L={l} requests were in flight when it was read, not counting those the application had abandoned before that poll began", strict_of[&sq])));
                            }
                            out.cells.push("C12.throttled".into());
                            pending_read = None;
                        }
                        (None, _) => out.viols.push(Viol::new("C12", "throttled-without-limit", format!("a throttle response for id {id} was written on a channel without a request limit"))),
                        _ => {}
                    }
                } else {
                    let b = match body {
                        Ok(b) | Err(b) => b,
                    };
                    if let Some(sq) = b.trim_start_matches('h').parse::<usize>().ok().and_then(|n| inv_seq.get(&n)) {
                        ended_set.insert(*sq);
                    }
                }
            }
            Ev::AppDrop { seq, .. } => {
                if *seq < usize::MAX / 2 {
                    appdropped.insert(*seq);
                } else if let Some(Ev::HDrop { inv, .. }) = ev.get(i + 1) {
                    // execute(): the dropped future is identified by the handler drop it causes
                    if let Some(sq) = inv_seq.get(inv) {
                        appdropped.insert(*sq);
                    }
                }
            }
            Ev::EofSeen { .. } => eof_seen_at = Some(i),
            Ev::End { v, .. } => {
                // C10: the stream may end only when every yielded request has ended
                if eof_seen_at.is_none() {
                    out.viols.push(Viol::new("C10", "ended-without-eof", "the request stream ended although the inbound side had not ended".into()));
                }
                for q in yielded.iter() {
                    if !ended_set.contains(q) && !appdropped.contains(q) && !exp_possible(q, *v, &v_read) && life[q].appdrop.is_none() {
                        out.viols.push(Viol::new("C10", "ended-with-unfinished-request", format!("the request stream ended while request seq {q} (id {}) was neither answered, cancelled, expired nor abandoned", life[q].id)));
                    }
                }
                for (inv, sq) in alive_handlers.iter() {
                    if !exp_possible(sq, *v, &v_read) && !ended_set.contains(sq) {
                        out.viols.push(Viol::new("C10", "ended-with-running-handler", format!("the request stream ended while handler {inv} of request seq {sq} was still running")));
                    }
                }
                out.cells.push("C10.server.ended".into());
                if !yielded.is_empty() {
                    out.nontrivial("C10");
                }
            }
            Ev::Idle { v, reported, lens, writable, inbox, step, unflushed } => {
                // C10: once the inbound side has ended and nothing is left to wait for - every yielded
                // request answered (and its response written), cancelled or abandoned; nothing unread,
                // nothing unflushed, sink writable - the stream must not sit idle: it ends
                if eof_seen_at.is_some() && *inbox == 0 && *writable && *unflushed == 0 && pending_read.is_none() && cfg.fault.is_none() {
                    let open = yielded.iter().filter(|q| !ended_set.contains(q) && !appdropped.contains(q)).count();
                    if open == 0 && !yielded.is_empty() {
                        out.viols.push(Viol::new("C10", "server-idle-after-drain", format!("idle at step {step} ({v}ms): the inbound side has ended and all {} yielded requests are answered, cancelled or abandoned, nothing is unread or unflushed and the sink is writable, yet the request stream has not ended and is not runnable", yielded.len())));
                    }
                }
                let possible_now = yielded.iter().filter(|q| !ended_set.contains(q)).count();
                let at_limit = match (limit, reported) {
                    (Some(l), Some(r)) => *r >= l,
                    (Some(l), None) => possible_now >= l,
                    _ => false,
                };
                let f6 = at_limit && !*writable;
                last_was_at_limit_blocked = f6;
                idle_f6.push((i, *v, f6));
                if let Some((e_, t_)) = lens {
                    if e_ != t_ {
                        out.viols.push(Viol::new("C11", "server-entries-vs-timers", format!("idle at step {step}: {e_} tracked requests but {t_} pending timers")));
                    }
                }
                if let Some(rep) = reported {
                    let possible = yielded.iter().filter(|q| !ended_set.contains(q)).count();
                    if *rep > possible + pending_read.map(|_| 1).unwrap_or(0) {
                        out.viols.push(Viol::new("C11", "server-reports-too-many", format!("idle at step {step}: in_flight_requests()={rep} exceeds the {possible} yielded requests that have not ended")));
                    }
                    let uncertain = yielded
                        .iter()
                        .any(|q| !ended_set.contains(q) && !appdropped.contains(q) && exp_possible(q, *v, &v_read) && !exp_certain(q, *v, &v_read));
                    if !uncertain && *inbox == 0 {
                        let expect = yielded
                            .iter()
                            .filter(|q| !ended_set.contains(q) && !appdropped.contains(q) && !exp_certain(q, *v, &v_read))
                            .count();
                        if *rep != expect {
                            let mut vv = Viol::new("C11", "server-idle-count", format!("idle at step {step} ({v}ms): in_flight_requests()={rep} but {expect} yielded requests have not been answered, cancelled, expired or abandoned"));
                            if f6 {
                                vv = vv.with_state("limiter=at-limit/sink=not-ready");
                            }
                            out.viols.push(vv);
                        }
                        out.cells.push("C11.server.idle-equality-checked".into());
                    }
                }
                // C06 late: a live handler whose deadline certainly passed
                for (inv, sq) in alive_handlers.iter() {
                    if v_read.contains_key(sq) && exp_certain(sq, *v, &v_read) && !ended_set.contains(sq) {
                        let mut vv = Viol::new("C06", "expiry-late", format!("idle at step {step} ({v}ms): handler {inv} of request seq {sq} (read at {}ms, D={}ms) is still alive although its deadline certainly passed", v_read[sq], metas[sq].d.d_ms()));
                        if f6 {
                            vv = vv.with_state("limiter=at-limit/sink=not-ready");
                        }
                        out.viols.push(vv);
                    }
                }
                // C04: "it stops counting as in flight": every yielded request has certainly ended
                // (answered or cancelled), at least one by cancellation, yet the channel still counts
                if let Some(rep) = reported {
                    let all_ended = !yielded.is_empty() && yielded.iter().all(|q| ended_set.contains(q));
                    let any_cancelled = yielded.iter().any(|q| life[q].cancel_read.map(|c| c < i).unwrap_or(false));
                    if all_ended && any_cancelled && *rep > 0 && pending_read.is_none() && *inbox == 0 {
                        out.viols.push(Viol::new("C04", "cancelled-request-still-counted", format!("idle at step {step}: every request was answered or cancelled, yet in_flight_requests()={rep}")));
                    }
                }
                // C04: cancelled requests whose handler is still alive at an idle point
                for (inv, sq) in alive_handlers.iter() {
                    let l = &life[sq];
                    if let Some(c) = l.cancel_read {
                        if c < i {
                            out.viols.push(Viol::new("C04", "handler-alive-after-cancel", format!("idle at step {step}: handler {inv} of request seq {sq} is still alive although its cancellation was read")));
                        }
                    }
                }
                // C02-style: readable input ignored (not when the limiter legitimately holds back)
                if *inbox > 0 && !f6 && stream_err.is_none() {
                    out.viols.push(Viol::new("C02", "server-readable-input-ignored", format!("idle at step {step}: {inbox} messages are readable but the channel is not runnable")));
                    if last_in_was_noop_cancel {
                        out.viols.push(Viol::new("C04", "noop-cancel-stalled-channel", format!("idle at step {step}: after a cancellation for an unknown or finished request the channel stopped reading ({inbox} messages stay unread)")));
                        out.viols.push(Viol::new("C16", "odd-message-stalled-channel", format!("idle at step {step}: after a cancellation for an id not in use the connection stopped serving ({inbox} messages stay unread)")));
                    }
                    if last_in_was_dup {
                        out.viols.push(Viol::new("C08", "duplicate-stalled-channel", format!("idle at step {step}: after ignoring a duplicate of an in-flight id the channel stopped reading ({inbox} messages stay unread)")));
                        out.viols.push(Viol::new("C16", "odd-message-stalled-channel", format!("idle at step {step}: after a duplicate request id the connection stopped serving ({inbox} messages stay unread)")));
                    }
                }
            }
            _ => {}
        }
    }
    let _ = last_was_at_limit_blocked;
    // C12: a request that had to be refused (L certainly in flight when it was read) gets its one
    // throttle response (unless a transport fault was injected)
    if cfg.fault.is_none() {
        for sq in must_refuse.iter() {
            let l = &life[sq];
            if l.responses.iter().all(|r| !r.1) && l.yielded.is_none() && !outside_quantifier {
                out.viols.push(Viol::new("C12", "refused-without-response", format!("request seq {sq} (id {}) was read while the limit was certainly reached, was not executed, and never received its throttle response (stream error: {:?})", l.id, stream_err)));
            }
        }
    }
    // ---------------- per-request rules
    let any_idle_after = |i: usize| ev[i..].iter().any(|x| matches!(x, Ev::Idle { .. }));
    for (seq, l) in life.iter() {
        let Some(m) = metas.get(seq) else { continue };
        let normal: Vec<_> = l.responses.iter().filter(|r| !r.1).collect();
        let thr: Vec<_> = l.responses.iter().filter(|r| r.1).collect();
        if normal.len() > 1 {
            out.viols.push(Viol::new("C08", "two-responses", format!("{} responses transmitted for request seq {seq} (id {})", normal.len(), l.id)));
        }
        if !thr.is_empty() {
            if thr.len() > 1 {
                out.viols.push(Viol::new("C12", "throttled-twice", format!("request seq {seq} received {} throttle responses", thr.len())));
            }
            if l.yielded.is_some() || l.inv.is_some() {
                out.viols.push(Viol::new("C12", "throttled-and-executed", format!("request seq {seq} was refused for the limit and also handed to the application")));
            }
        }
        if let Some(r) = normal.first() {
            match l.finish {
                None => out.viols.push(Viol::new("C08", "response-without-finish", format!("a response for request seq {seq} was transmitted but its handler never finished"))),
                Some(f) => {
                    if f > r.0 {
                        out.viols.push(Viol::new("C08", "response-before-finish", format!("response for request seq {seq} transmitted before its handler finished")));
                    }
                    if let Some(c) = l.cancel_read {
                        if c < r.0 {
                            let rule = if c < f { "response-after-cancel-before-finish" } else { "response-after-cancel" };
                            out.viols.push(Viol::new("C04", rule, format!("response for request seq {seq} (id {}) transmitted after its cancellation was read", l.id)));
                            out.viols.push(Viol::new("C08", "response-after-cancel", format!("response for request seq {seq} transmitted although the request was cancelled before the write")));
                        }
                    }
                    if let Some(a) = l.appdrop {
                        if a < r.0 && a < f {
                            out.viols.push(Viol::new("C08", "response-after-abandon", format!("response for request seq {seq} transmitted although the application abandoned it")));
                        }
                    }
                    // C06: nothing transmitted after the deadline certainly passed
                    if let (Some((_, vr, _)), Ev::Out { v, .. }) = (l.read, &ev[r.0]) {
                        if m.d.timed() {
                            let q = read_real.get(seq).map(|x| x.0.saturating_duration_since(m.r_c)).unwrap_or_default();
                            let rem = Duration::from_millis(m.d.d_ms()).saturating_sub(q);
                            let ub = vr + rem.as_millis() as u64 + 1 + real_slack_ms;
                            // only once the channel has certainly processed the expiry: an idle point in between
                            let between: Vec<&(usize, u64, bool)> = idle_f6.iter().filter(|(ix, iv, _)| *ix < r.0 && *iv > ub).collect();
                            if *v > ub && !between.is_empty() {
                                let mut vv = Viol::new("C06", "response-after-expiry", format!("response for request seq {seq} transmitted at {v}ms although its deadline (read at {vr}ms, D={}ms) had certainly passed while the channel was idle", m.d.d_ms()));
                                if between.iter().all(|(_, _, f6)| *f6) {
                                    vv = vv.with_state("limiter=at-limit/sink=not-ready");
                                }
                                out.viols.push(vv);
                            }
                        }
                    }
                }
            }
            if l.dup_ignored {
                out.viols.push(Viol::new("C08", "duplicate-answered", format!("duplicate request seq {seq} got its own response")));
            }
        }
        // C04: no handler progress after the cancel was read
        if let (Some(c), Some(inv)) = (l.cancel_read, l.inv) {
            out.nontrivial("C04");
            let stage = if l.responses.iter().any(|r| !r.1 && r.0 < c) {
                "response-written"
            } else if l.finish.map(|f| f < c).unwrap_or(false) {
                "finished-unwritten"
            } else if ev[..c].iter().any(|x| matches!(x, Ev::HPoll { inv: i2, .. } if *i2 == inv)) {
                "handler-running"
            } else {
                "not-yet-polled"
            };
            out.cells.push(format!("C04.cancel.{stage}"));
            for x in ev[c..].iter() {
                match x {
                    Ev::HPoll { inv: i2, n, .. } if *i2 == inv => {
                        out.viols.push(Viol::new("C04", "handler-progress-after-cancel", format!("handler {inv} of request seq {seq} was polled (step {n}) after its cancellation was read")));
                        break;
                    }
                    Ev::HFinish { inv: i2, .. } if *i2 == inv => {
                        out.viols.push(Viol::new("C04", "handler-finished-after-cancel", format!("handler {inv} of request seq {seq} finished after its cancellation was read")));
                        break;
                    }
                    _ => {}
                }
            }
        } else if l.cancel_read.is_some() {
            out.nontrivial("C04");
            out.cells.push("C04.cancel.before-execute".into());
        }
        // unexplained aborts: C04 (cancel for something else) / C06 (early)
        if let Some((di, fin, v_drop, r_drop)) = l.hdrop {
            if !fin {
                let by_cancel = l.cancel_read.map(|c| c < di).unwrap_or(false);
                let by_app = l.appdrop.map(|a| a <= di).unwrap_or(false);
                let by_channel_drop = channel_dropped_at.map(|c| c < di).unwrap_or(false);
                let early_but_channel_dropped = by_channel_drop
                    && l.read.map(|(_, vr, _)| v_drop < lb(seq, vr, read_real.get(seq).map(|x| x.1))).unwrap_or(true);
                if !by_cancel && !by_app && !early_but_channel_dropped {
                    // must be an expiry: never early
                    if let Some((_, vr, _)) = l.read {
                        let earliest = lb(seq, vr, read_real.get(seq).map(|x| x.1));
                        let _ = r_drop;
                        if !m.d.timed() && m.d.d_ms() >= YEAR_MS && v_drop + 10 < vr + YEAR_MS {
                            out.viols.push(Viol::new("C06", "abort-early", format!("handler of request seq {seq} (deadline beyond a year) aborted at {v_drop}ms, read at {vr}ms")));
                        } else if m.d.timed() && v_drop < earliest {
                            out.viols.push(Viol::new(
                                "C06",
                                "abort-early",
                                format!("handler of request seq {seq} (id {}) was aborted at {v_drop}ms without cancellation, before its deadline: read at {vr}ms, D={}ms => earliest legitimate expiry {earliest}ms", l.id, m.d.d_ms()),
                            ));
                            if had_dup.contains(seq) {
                                // C16: duplicates are ignored *while the connection keeps serving well-formed traffic*
                                out.viols.push(Viol::new("C16", "duplicate-disturbed-original", format!("request seq {seq} (id {}) was in flight when a duplicate of its id arrived; its handler was then aborted at {v_drop}ms, before its own deadline (earliest legitimate expiry {earliest}ms) and without a cancellation", l.id)));
                            }
                        } else {
                            out.count("handlers_aborted_by_expiry", 1);
                            out.nontrivial("C06");
                            let cls = match m.d {
                                SDl::Past => "past",
                                SDl::Ms(0) => "zero",
                                SDl::Ms(1..=5) => "1-5ms",
                                SDl::Ms(x) if x >= YEAR_MS => "largest-span",
                                SDl::Ms(6..=10_000) => "50ms-10s",
                                SDl::Ms(_) => "hours",
                                _ => "beyond",
                            };
                            out.cells.push(format!("C06.expired.{cls}"));
                        }
                    }
                } else if by_cancel {
                    out.count("handlers_aborted_by_cancel", 1);
                }
            } else if m.d.timed() {
                out.cells.push("C06.finished-before-deadline".into());
                out.nontrivial("C06");
            }
        }
        // C06/C08: a finished handler whose request was not cancelled/expired must get its response out by quiescence
        if let (Some(f), true) = (l.finish, normal.is_empty()) {
            let cancelled = l.cancel_read.is_some();
            let dropped = channel_dropped_at.is_some() && !ended;
            let exp_poss = l.read.map(|(_, vr, _)| now + real_slack_ms >= lb(seq, vr, read_real.get(seq).map(|x| x.1))).unwrap_or(true);
            if !cancelled && !exp_poss && !dropped && stream_err.is_none() && any_idle_after(f) && ended && l.appdrop.is_none() {
                out.viols.push(Viol::new("C06", "unaffected-request-lost-response", format!("handler of request seq {seq} finished, the request was neither cancelled nor expired, the stream ended, yet no response was transmitted")));
            }
        }
        if l.yielded.is_some() {
            out.nontrivial("C08");
            out.nontrivial("C11");
        }
        if limit.is_some() && l.read.is_some() {
            out.nontrivial("C12");
        }
    }
    // ---------------- C09 server: fault reporting
    if let Some((op, _)) = s.fault_fired {
        out.nontrivial("C09");
        out.cells.push(format!("C09.server.fault.{}", op.name()));
        let expect = match op {
            Op::Ready => Some("Ready"),
            Op::Flush => Some("Flush"),
            Op::Close => Some("Close"),
            Op::Next => Some("Read"),
            Op::Send => Some("Write"),
            Op::Eof => None,
        };
        if let Some(exp) = expect {
            match (&stream_err, cfg.mode) {
                (Some(v), Mode::Requests | Mode::Raw) if v == exp => {}
                (Some(v), Mode::Requests | Mode::Raw) if v == "panic" => {}
                (Some(v), Mode::Requests | Mode::Raw) => out.viols.push(Viol::new("C09", "server-wrong-variant", format!("transport {} failed; the request stream reported ChannelError::{v}, expected {exp}", op.name()))),
                (None, Mode::Requests | Mode::Raw) => out.viols.push(Viol::new("C09", "server-fault-not-reported", format!("transport {} failed but the request stream never reported an error (ended={ended})", op.name()))),
                (_, Mode::Execute) => {
                    if !ended {
                        out.viols.push(Viol::new("C09", "execute-keeps-running", format!("transport {} failed but the execute() stream did not stop", op.name())));
                    }
                }
            }
        }
        if survivors > 0 && cfg.mode != Mode::Raw {
            out.viols.push(Viol::new("C09", "handlers-outlive-channel", format!("{survivors} handler futures are still running after the failed channel was dropped")));
        }
    } else if survivors > 0 && cfg.mode == Mode::Requests {
        out.viols.push(Viol::new("C09", "handlers-outlive-channel", format!("{survivors} handler futures are still running after the channel was dropped")));
    }
    // ---------------- C10 / C11 end state
    if eof_sent && !ended && stream_err.is_none() && cfg.fault.is_none() && panics.is_empty() {
        // every handler got its gates opened by the scheduler; at quiescence the stream must have ended
        out.viols.push(Viol::new("C10", "server-never-ended", "the inbound side ended, every request ended, the sink is writable, yet the request stream never ended".into()));
    }
    if let Some(Ev::Idle { lens: Some((e_, t_)), reported, writable, .. }) = ev.iter().rev().find(|x| matches!(x, Ev::Idle { .. })) {
        let all_over = life.values().all(|l| l.yielded.is_none() || !l.responses.is_empty() || l.cancel_read.is_some() || l.appdrop.is_some() || l.hdrop.map(|h| !h.1).unwrap_or(false));
        if all_over && *writable && !ended && stream_err.is_none() && (*e_ != 0 || *t_ != 0) {
            let at_limit = matches!((limit, reported), (Some(l), Some(r)) if *r >= l);
            if !(at_limit && !*writable) {
                out.viols.push(Viol::new("C11", "server-not-reclaimed", format!("every yielded request ended, yet the channel still tracks {e_} requests and {t_} timers at the last idle point")));
            }
        }
    }
    if s.fault_fired.is_none() && !s.sent.is_empty() {
        out.nontrivial("C14");
    }
    for (op, r) in s.oplog.iter() {
        if *r == 1 {
            out.cells.push(format!("C14.server.pending.{}.{:?}", op.name(), s.model));
        }
    }
    out.cells.push(format!("C14.server.cap{}.{:?}", cfg.cap.min(8), s.model));
    out.cells.push(format!("mode.{:?}.limit.{}", cfg.mode, match limit { None => "off".to_string(), Some(l) => l.min(8).to_string() }));
    for (op, n) in s.opcount.iter() {
        out.count(crate::props::op_counter_name(*op), *n as u64);
    }
    if cfg.extreme {
        out.nontrivial("C16");
    }
    if outside_quantifier {
        // keep only what does not depend on request identity: transport contract and crashes
        out.viols.retain(|v| v.prop == "C14" || v.rule == "panic");
        out.nontrivial.clear();
        out.count("scenarios_not_judged_id_reuse_outside_quantifier", 1);
    }
}
