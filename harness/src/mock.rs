//! Monitored mock transport. The peer is the harness. Carries the sink-contract monitor (C14).
use crate::common::Viol;
use futures::{task::*, Sink, Stream};
use std::{
    cell::RefCell,
    collections::{BTreeMap, VecDeque},
    io,
    pin::Pin,
    rc::Rc,
    time::Instant,
};
use tarpc::{trace, ClientMessage, Response};

#[derive(Clone, Copy, PartialEq, Eq, Debug)]
pub enum Model {
    /// socket-like: poll_ready is Pending while the buffer is full, flush is Pending until the
    /// harness lets it through; not-ready implies flush-pending.
    Coupled,
    /// bounded-queue-like: poll_flush always completes, poll_ready Pending until a slot frees.
    Independent,
}

#[derive(Clone, Copy, PartialEq, Eq, Debug, PartialOrd, Ord, Hash)]
pub enum Op {
    Ready,
    Send,
    Flush,
    Close,
    Next,
    Eof,
}
impl Op {
    pub fn name(self) -> &'static str {
        match self {
            Op::Ready => "poll_ready",
            Op::Send => "start_send",
            Op::Flush => "poll_flush",
            Op::Close => "poll_close",
            Op::Next => "poll_next",
            Op::Eof => "end_of_stream",
        }
    }
    pub const ALL: [Op; 6] = [Op::Ready, Op::Send, Op::Flush, Op::Close, Op::Next, Op::Eof];
}

/// Abstract view of a protocol item.
#[derive(Clone, Debug)]
pub enum Item {
    Req {
        id: u64,
        body: String,
        deadline: Instant,
        trace: trace::Context,
    },
    Cancel {
        id: u64,
        trace: trace::Context,
    },
    Resp {
        id: u64,
        body: Result<String, (io::ErrorKind, String)>,
    },
}
impl Item {
    pub fn id(&self) -> u64 {
        match self {
            Item::Req { id, .. } | Item::Cancel { id, .. } | Item::Resp { id, .. } => *id,
        }
    }
    pub fn short(&self) -> String {
        match self {
            Item::Req { .. } => "Req".into(),
            Item::Cancel { .. } => "Cancel".into(),
            Item::Resp { body: Ok(_), .. } => "Resp".into(),
            Item::Resp {
                body: Err((k, _)), ..
            } => format!("RespErr({k:?})"),
        }
    }
}
pub trait Abstract {
    fn abs(&self) -> Item;
}
impl Abstract for ClientMessage<String> {
    fn abs(&self) -> Item {
        match self {
            ClientMessage::Request(r) => Item::Req {
                id: r.id,
                body: r.message.clone(),
                deadline: r.context.deadline,
                trace: r.context.trace_context,
            },
            ClientMessage::Cancel {
                trace_context,
                request_id,
            } => Item::Cancel {
                id: *request_id,
                trace: *trace_context,
            },
            _ => unreachable!(),
        }
    }
}
impl Abstract for Response<String> {
    fn abs(&self) -> Item {
        Item::Resp {
            id: self.request_id,
            body: match &self.message {
                Ok(b) => Ok(b.clone()),
                Err(e) => Err((e.kind, e.detail.clone())),
            },
        }
    }
}

#[derive(Debug)]
pub struct TErr(pub &'static str);
impl std::fmt::Display for TErr {
    fn fmt(&self, f: &mut std::fmt::Formatter) -> std::fmt::Result {
        write!(f, "injected {} failure", self.0)
    }
}
impl std::error::Error for TErr {}

/// One written item with where/when it was written.
#[derive(Clone, Debug)]
pub struct Sent {
    pub item: Item,
    pub v_ms: u64,
    pub real: Instant,
    pub epoch: u64,
    pub epoch_start: Instant,
    /// peer-visible (flushed) ?
    pub visible: bool,
    pub write_failed: bool,
    /// scheduler step at which it was written
    pub step: u64,
    /// global order among all reads and writes of this transport
    pub order: u64,
}
/// One item handed to the code under test.
#[derive(Clone, Debug)]
pub struct Recv {
    pub item: Item,
    pub seq: usize,
    pub v_ms: u64,
    pub real_before: Instant,
    pub real_after: Instant,
    /// real instant at which the poll that consumed the item returned to the harness
    pub poll_end: Option<Instant>,
    pub epoch: u64,
    pub step: u64,
    pub order: u64,
}

pub struct State<I> {
    pub who: &'static str,
    pub model: Model,
    pub cap: usize,
    pub sent: Vec<Sent>,
    buf: VecDeque<usize>,
    pub slots: usize,
    pub flush_open: bool,
    credit: bool,
    pub close_called: bool,
    /// value of `order` when poll_close was first called
    pub close_first_order: Option<u64>,
    pub closed: bool,
    pub failed: bool,
    tx_waker: Option<Waker>,
    /// the transport returned Pending from ready/flush/close and has not yet woken the task
    pub tx_wake_owed: bool,
    pub inbox: VecDeque<(I, usize)>,
    pub eof: bool,
    pub eof_seen: bool,
    rx_waker: Option<Waker>,
    pub rx_wake_owed: bool,
    pub recv: Vec<Recv>,
    pub epoch: u64,
    pub epoch_start: Instant,
    pub step: u64,
    noprog: usize,
    pub dirty: bool,
    pub viols: Vec<Viol>,
    pub fault: Option<(Op, usize)>,
    pub opcount: BTreeMap<Op, usize>,
    pub fault_fired: Option<(Op, usize)>,
    /// index into `sent` / item of the failed write, if the fault was a write
    pub failed_write: Option<Item>,
    pub t0: tokio::time::Instant,
    pub oplog: Vec<(Op, u8)>,
    pub spin_limit: usize,
    pub check_contract: bool,
    pub order: u64,
    /// free-form tags (C13: key and arrival number)
    pub tag: u64,
    pub tag2: u64,
    /// refuse writes for which there is no room (as a real bounded sink does)
    pub strict: bool,
    /// a write failed because there was no room, not because a fault was injected
    pub unforced_write_failure: bool,
    /// the transport reported a failure that ends the connection (any injected fault except a
    /// failed request write on the client, which only fails that call)
    pub fatal_failure: bool,
}

pub struct Mock<S, I> {
    pub st: Rc<RefCell<State<I>>>,
    _p: std::marker::PhantomData<fn(S)>,
}
impl<S, I> Unpin for Mock<S, I> {}

pub fn new_mock<S, I>(
    who: &'static str,
    model: Model,
    cap: usize,
    fault: Option<(Op, usize)>,
) -> (Mock<S, I>, Rc<RefCell<State<I>>>) {
    let st = Rc::new(RefCell::new(State {
        who,
        model,
        cap,
        sent: vec![],
        buf: VecDeque::new(),
        slots: cap,
        flush_open: true,
        credit: false,
        close_called: false,
        close_first_order: None,
        closed: false,
        failed: false,
        tx_waker: None,
        tx_wake_owed: false,
        inbox: VecDeque::new(),
        eof: false,
        eof_seen: false,
        rx_waker: None,
        rx_wake_owed: false,
        recv: vec![],
        epoch: 0,
        epoch_start: Instant::now(),
        step: 0,
        noprog: 0,
        dirty: false,
        viols: vec![],
        fault,
        opcount: BTreeMap::new(),
        fault_fired: None,
        failed_write: None,
        t0: tokio::time::Instant::now(),
        oplog: vec![],
        spin_limit: 20_000,
        check_contract: true,
        order: 0,
        tag: 0,
        tag2: 0,
        strict: true,
        unforced_write_failure: false,
        fatal_failure: false,
    }));
    (
        Mock {
            st: st.clone(),
            _p: std::marker::PhantomData,
        },
        st,
    )
}

impl<I> State<I> {
    pub fn vms(&self) -> u64 {
        self.t0.elapsed().as_millis() as u64
    }
    fn hit(&mut self, op: Op) -> bool {
        let c = self.opcount.entry(op).or_insert(0);
        *c += 1;
        if let Some((fop, k)) = self.fault {
            if fop == op && *c == k && self.fault_fired.is_none() {
                self.fault_fired = Some((op, k));
                if !matches!(op, Op::Send | Op::Eof) {
                    self.fatal_failure = true;
                }
                return true;
            }
        }
        false
    }
    fn viol(&mut self, rule: &str, msg: String) {
        if self.check_contract {
            let who = self.who;
            self.viols
                .push(Viol::new("C14", rule, format!("[{who}] {msg}")));
        }
    }
    fn noprog(&mut self) {
        self.noprog += 1;
        if self.noprog > self.spin_limit {
            self.viol(
                "spin",
                format!(
                    "more than {} consecutive no-progress sink calls inside one poll (retrying instead of yielding)",
                    self.spin_limit
                ),
            );
            self.noprog = 0;
            panic!("VERIF-SPIN");
        }
    }
    fn flush_all(&mut self) {
        while let Some(i) = self.buf.pop_front() {
            self.sent[i].visible = true;
        }
        self.dirty = false;
    }
    /// A new poll of the owning task starts.
    pub fn begin_epoch(&mut self, step: u64) {
        self.epoch += 1;
        self.epoch_start = Instant::now();
        self.step = step;
        self.noprog = 0;
    }
    /// the current poll of the owning task returned: close the real-time bracket of what it read
    pub fn stamp_poll_end(&mut self) {
        let now = Instant::now();
        for r in self.recv.iter_mut().rev() {
            if r.poll_end.is_some() {
                break;
            }
            r.poll_end = Some(now);
        }
    }
    /// The owning task returned Pending (going idle): C14(c).
    pub fn on_task_pending(&mut self) {
        if self.dirty && !self.failed && !self.fatal_failure && !self.tx_wake_owed {
            self.viol(
                "idle-unflushed",
                "task returned Pending while written items remain unflushed and the transport owes it no wake-up".into(),
            );
        }
    }
    /// The owning task finished through an orderly path.
    pub fn on_task_finished_orderly(&mut self) {
        if self.dirty && !self.failed && !self.fatal_failure {
            self.viol(
                "finish-unflushed",
                "task finished (orderly shutdown) while written items remain unflushed".into(),
            );
        }
    }
    pub fn writable_now(&self) -> bool {
        match self.model {
            Model::Coupled => self.buf.len() < self.cap || self.flush_open,
            Model::Independent => self.slots > 0,
        }
    }
    pub fn unflushed(&self) -> usize {
        self.buf.len()
    }
    // ---- environment actions
    pub fn env_open_flush(&mut self) {
        self.flush_open = true;
        self.wake_tx();
    }
    pub fn env_close_flush(&mut self) {
        self.flush_open = false;
    }
    pub fn env_free_slots(&mut self, n: usize) {
        self.slots = (self.slots + n).min(self.cap);
        self.wake_tx();
    }
    fn wake_tx(&mut self) {
        self.tx_wake_owed = false;
        if let Some(w) = self.tx_waker.take() {
            w.wake();
        }
    }
    pub fn env_inject(&mut self, item: I, seq: usize) {
        self.inbox.push_back((item, seq));
        self.wake_rx();
    }
    pub fn env_eof(&mut self) {
        self.eof = true;
        self.wake_rx();
    }
    fn wake_rx(&mut self) {
        self.rx_wake_owed = false;
        if let Some(w) = self.rx_waker.take() {
            w.wake();
        }
    }
    /// items the peer can see, in order
    pub fn visible(&self) -> impl Iterator<Item = (usize, &Sent)> {
        self.sent
            .iter()
            .enumerate()
            .filter(|(_, s)| s.visible && !s.write_failed)
    }
    /// everything handed to start_send successfully (flushed or not), in order
    pub fn written(&self) -> impl Iterator<Item = (usize, &Sent)> {
        self.sent.iter().enumerate().filter(|(_, s)| !s.write_failed)
    }
}

impl<S: Abstract, I> Sink<S> for Mock<S, I> {
    type Error = TErr;
    fn poll_ready(self: Pin<&mut Self>, cx: &mut Context<'_>) -> Poll<Result<(), TErr>> {
        let mut s = self.st.borrow_mut();
        if s.hit(Op::Ready) {
            s.failed = true;
            s.oplog.push((Op::Ready, 2));
            return Poll::Ready(Err(TErr("poll_ready")));
        }
        if s.model == Model::Coupled && s.buf.len() >= s.cap && s.flush_open {
            // like Framed: a full buffer is flushed by poll_ready when possible
            s.flush_all();
        }
        let ok = match s.model {
            Model::Coupled => s.buf.len() < s.cap,
            Model::Independent => s.slots > 0,
        };
        if ok {
            if !s.credit {
                s.noprog = 0;
            } else {
                s.noprog();
            }
            s.credit = true;
            s.oplog.push((Op::Ready, 0));
            Poll::Ready(Ok(()))
        } else {
            s.tx_waker = Some(cx.waker().clone());
            s.tx_wake_owed = true;
            s.oplog.push((Op::Ready, 1));
            s.noprog();
            Poll::Pending
        }
    }
    fn start_send(self: Pin<&mut Self>, m: S) -> Result<(), TErr> {
        let mut s = self.st.borrow_mut();
        let item = m.abs();
        if !s.credit {
            s.viol(
                "send-without-ready",
                format!("start_send({}) without a Ready(Ok) from poll_ready since the previous start_send", item.short()),
            );
        }
        if s.close_called {
            s.viol("send-after-close", format!("start_send({}) after poll_close", item.short()));
        }
        if s.failed {
            s.viol(
                "send-after-failure",
                format!("start_send({}) after the transport reported a readiness/flush/close failure", item.short()),
            );
        }
        s.credit = false;
        s.noprog = 0;
        // a real bounded sink refuses an item it has no room for
        let no_room = match s.model {
            Model::Coupled => s.buf.len() >= s.cap,
            Model::Independent => s.slots == 0,
        };
        let fail = s.hit(Op::Send) || (no_room && s.strict);
        let (v_ms, epoch, epoch_start, step) = (s.vms(), s.epoch, s.epoch_start, s.step);
        let idx = s.sent.len();
        let visible = !fail && s.model == Model::Independent;
        s.order += 1;
        let order = s.order;
        s.sent.push(Sent {
            order,
            item: item.clone(),
            v_ms,
            real: Instant::now(),
            epoch,
            epoch_start,
            visible,
            write_failed: fail,
            step,
        });
        if fail {
            if s.who == "server" || matches!(item, Item::Cancel { .. }) {
                s.fatal_failure = true;
            }
            if s.fault_fired.map(|(o, _)| o != Op::Send).unwrap_or(true) {
                s.unforced_write_failure = true;
            }
            s.failed_write = Some(item);
            s.oplog.push((Op::Send, 2));
            return Err(TErr("start_send"));
        }
        s.oplog.push((Op::Send, 0));
        match s.model {
            Model::Coupled => {
                s.buf.push_back(idx);
                s.dirty = true;
            }
            Model::Independent => {
                if s.slots > 0 {
                    s.slots -= 1;
                }
            }
        }
        Ok(())
    }
    fn poll_flush(self: Pin<&mut Self>, cx: &mut Context<'_>) -> Poll<Result<(), TErr>> {
        let mut s = self.st.borrow_mut();
        if s.hit(Op::Flush) {
            s.failed = true;
            s.oplog.push((Op::Flush, 2));
            return Poll::Ready(Err(TErr("poll_flush")));
        }
        match s.model {
            Model::Independent => {
                s.oplog.push((Op::Flush, 0));
                s.noprog();
                Poll::Ready(Ok(()))
            }
            Model::Coupled => {
                if s.buf.is_empty() {
                    s.dirty = false;
                    s.oplog.push((Op::Flush, 0));
                    s.noprog();
                    Poll::Ready(Ok(()))
                } else if s.flush_open {
                    s.flush_all();
                    s.noprog = 0;
                    s.oplog.push((Op::Flush, 0));
                    // a waiter for readiness (same task) is satisfied too
                    Poll::Ready(Ok(()))
                } else {
                    s.tx_waker = Some(cx.waker().clone());
                    s.tx_wake_owed = true;
                    s.oplog.push((Op::Flush, 1));
                    s.noprog();
                    Poll::Pending
                }
            }
        }
    }
    fn poll_close(self: Pin<&mut Self>, cx: &mut Context<'_>) -> Poll<Result<(), TErr>> {
        let mut s = self.st.borrow_mut();
        if s.hit(Op::Close) {
            s.failed = true;
            s.oplog.push((Op::Close, 2));
            return Poll::Ready(Err(TErr("poll_close")));
        }
        s.close_called = true;
        if s.close_first_order.is_none() {
            s.close_first_order = Some(s.order);
        }
        if s.model == Model::Coupled && !s.buf.is_empty() {
            if s.flush_open {
                s.flush_all();
            } else {
                s.tx_waker = Some(cx.waker().clone());
                s.tx_wake_owed = true;
                s.oplog.push((Op::Close, 1));
                s.noprog();
                return Poll::Pending;
            }
        }
        s.closed = true;
        s.oplog.push((Op::Close, 0));
        Poll::Ready(Ok(()))
    }
}

impl<S, I: Abstract> Stream for Mock<S, I> {
    type Item = Result<I, TErr>;
    fn poll_next(self: Pin<&mut Self>, cx: &mut Context<'_>) -> Poll<Option<Self::Item>> {
        let mut s = self.st.borrow_mut();
        let before = Instant::now();
        if s.hit(Op::Next) {
            s.oplog.push((Op::Next, 2));
            return Poll::Ready(Some(Err(TErr("poll_next"))));
        }
        if s.hit(Op::Eof) {
            s.eof = true;
            s.inbox.clear();
        }
        if let Some((m, seq)) = s.inbox.pop_front() {
            let (v_ms, epoch, step) = (s.vms(), s.epoch, s.step);
            let item = m.abs();
            s.order += 1;
            let order = s.order;
            s.recv.push(Recv {
                order,
                item,
                seq,
                v_ms,
                real_before: before,
                real_after: Instant::now(),
                poll_end: None,
                epoch,
                step,
            });
            s.noprog = 0;
            s.oplog.push((Op::Next, 0));
            return Poll::Ready(Some(Ok(m)));
        }
        if s.eof {
            s.eof_seen = true;
            s.oplog.push((Op::Next, 3));
            return Poll::Ready(None);
        }
        s.rx_waker = Some(cx.waker().clone());
        s.rx_wake_owed = true;
        s.oplog.push((Op::Next, 1));
        Poll::Pending
    }
}

/// Conformance self-test of the mock itself: a reference well-behaved sink user (futures'
/// `SinkExt::feed`/`flush`/`close`, which follow the Sink contract by construction) drives the mock
/// through blocked and unblocked phases; the mock must deliver every item in order, must never flag
/// the reference user, and must wake it whenever the awaited condition changes.
pub fn selftest(seed: u64, model: Model, cap: usize) -> crate::common::Outcome {
    use crate::common::*;
    use futures::{Future, SinkExt};
    let mut out = Outcome::default();
    out.desc = serde_json::json!({"family": "mock-selftest", "seed": seed, "model": format!("{model:?}"), "cap": cap});
    let (mock, st) = new_mock::<ClientMessage<String>, Response<String>>("selftest", model, cap, None);
    let n = 40usize;
    let mut user = Box::pin(async move {
        let mut m = mock;
        for i in 0..n {
            let item = ClientMessage::Cancel { trace_context: trace::Context::default(), request_id: i as u64 };
            if m.feed(item).await.is_err() {
                return false;
            }
            if i % 3 == 0 && m.flush().await.is_err() {
                return false;
            }
        }
        m.close().await.is_ok()
    });
    let fl = flag();
    let mut rng = Rng::new(seed);
    let mut done = None;
    let mut steps = 0;
    while done.is_none() && steps < 100_000 {
        steps += 1;
        if fl.is_woken() {
            fl.clear();
            st.borrow_mut().begin_epoch(steps);
            let w = futures::task::waker(fl.clone());
            if let Poll::Ready(ok) = user.as_mut().poll(&mut Context::from_waker(&w)) {
                done = Some(ok);
            } else {
                st.borrow_mut().on_task_pending();
            }
        } else {
            // the user is parked: the environment must be able to make progress possible again
            let mut s = st.borrow_mut();
            match model {
                Model::Coupled => {
                    if !s.flush_open {
                        s.env_open_flush();
                    } else {
                        drop(s);
                        out.viol("C14", "mock-selftest-stall", "the reference sink user is parked although the mock is writable: the mock lost a wake-up".into());
                        break;
                    }
                }
                Model::Independent => {
                    if s.slots < s.cap {
                        let k = 1 + rng.below(cap);
                        s.env_free_slots(k);
                    } else {
                        drop(s);
                        out.viol("C14", "mock-selftest-stall", "the reference sink user is parked although slots are free: the mock lost a wake-up".into());
                        break;
                    }
                }
            }
        }
        if model == Model::Coupled && rng.chance(1, 4) {
            st.borrow_mut().env_close_flush();
        }
    }
    let s = st.borrow();
    for v in s.viols.iter() {
        out.viol("C14", "mock-selftest-false-report", format!("the monitor flagged the reference sink user: {}", v.msg));
    }
    if done != Some(true) && out.viols.is_empty() {
        out.viol("C14", "mock-selftest-incomplete", format!("reference user finished with {done:?} after {steps} steps"));
    }
    let ids: Vec<u64> = s.visible().map(|(_, x)| x.item.id()).collect();
    if done == Some(true) && ids != (0..n as u64).collect::<Vec<_>>() {
        out.viol("C14", "mock-selftest-delivery", format!("items visible to the peer: {ids:?}"));
    }
    out.cell(format!("C14.mock-selftest.{model:?}"));
    out.sig = mix(seed, cap as u64 * 7 + (model == Model::Coupled) as u64);
    out.trace = vec![format!("mock self-test {model:?} cap {cap}: {} items delivered in {steps} steps", ids.len())];
    out
}
