//! S-e2e: real client <-> real server over the shipped transports (in-memory unbounded/bounded,
//! serde JSON / bincode over a fragmenting in-memory byte pipe), chains of 1-3 hops where the
//! handler at hop i calls hop i+1 with its own context. Oracles: C07, C18, C04 (cascade),
//! C02/C11 (end to end), C15 (items in == items out on every link).
use crate::common::*;
use crate::mock::{Abstract, Item};
use crate::sclient::panic_msg;
use futures::{prelude::*, task::*};
use serde_json::json;
use std::{
    cell::RefCell,
    collections::{BTreeMap, HashMap, VecDeque},
    io,
    panic::{catch_unwind, AssertUnwindSafe},
    pin::Pin,
    rc::Rc,
    time::{Duration, Instant},
};
use tarpc::{
    client::{self, RpcError},
    context,
    server::{BaseChannel, Channel, Serve},
    trace, ClientMessage, Response, ServerError,
};
use tokio::io::{AsyncRead, AsyncWrite, ReadBuf};
use tokio_util::codec::{Framed, LengthDelimitedCodec};

// ------------------------------------------------------------------ fragmenting byte pipe
pub struct PipeBuf {
    pub buf: VecDeque<u8>,
    pub closed: bool,
    pub reader: Option<Waker>,
    pub total: u64,
}
pub struct FragPipe {
    rx: Rc<RefCell<PipeBuf>>,
    tx: Rc<RefCell<PipeBuf>>,
    rng: Rng,
    pub max_chunk: usize,
    pub pending_pct: u64,
}
pub fn frag_pipe(seed: u64, max_chunk: usize, pending_pct: u64) -> (FragPipe, FragPipe) {
    let a = Rc::new(RefCell::new(PipeBuf { buf: VecDeque::new(), closed: false, reader: None, total: 0 }));
    let b = Rc::new(RefCell::new(PipeBuf { buf: VecDeque::new(), closed: false, reader: None, total: 0 }));
    (
        FragPipe { rx: a.clone(), tx: b.clone(), rng: Rng::new(seed), max_chunk, pending_pct },
        FragPipe { rx: b, tx: a, rng: Rng::new(seed ^ 0xABCD), max_chunk, pending_pct },
    )
}
impl FragPipe {
    pub fn tx_handle(&self) -> Rc<RefCell<PipeBuf>> {
        self.tx.clone()
    }
    pub fn rx_handle(&self) -> Rc<RefCell<PipeBuf>> {
        self.rx.clone()
    }
}
impl Drop for FragPipe {
    fn drop(&mut self) {
        let mut t = self.tx.borrow_mut();
        t.closed = true;
        if let Some(w) = t.reader.take() {
            w.wake();
        }
    }
}
impl AsyncRead for FragPipe {
    fn poll_read(mut self: Pin<&mut Self>, cx: &mut Context<'_>, out: &mut ReadBuf<'_>) -> Poll<io::Result<()>> {
        let me = &mut *self;
        if me.pending_pct > 0 && (me.rng.below(100) as u64) < me.pending_pct {
            cx.waker().wake_by_ref();
            return Poll::Pending;
        }
        let mut r = me.rx.borrow_mut();
        if r.buf.is_empty() {
            if r.closed {
                return Poll::Ready(Ok(()));
            }
            r.reader = Some(cx.waker().clone());
            return Poll::Pending;
        }
        let n = (1 + me.rng.below(me.max_chunk)).min(r.buf.len()).min(out.remaining());
        for _ in 0..n {
            let b = r.buf.pop_front().unwrap();
            out.put_slice(&[b]);
        }
        Poll::Ready(Ok(()))
    }
}
impl AsyncWrite for FragPipe {
    fn poll_write(mut self: Pin<&mut Self>, cx: &mut Context<'_>, data: &[u8]) -> Poll<io::Result<usize>> {
        let me = &mut *self;
        if me.pending_pct > 0 && (me.rng.below(100) as u64) < me.pending_pct {
            cx.waker().wake_by_ref();
            return Poll::Pending;
        }
        let mut t = me.tx.borrow_mut();
        if t.closed {
            return Poll::Ready(Err(io::Error::new(io::ErrorKind::BrokenPipe, "peer closed")));
        }
        let n = (1 + me.rng.below(me.max_chunk)).min(data.len());
        t.buf.extend(&data[..n]);
        t.total += n as u64;
        if let Some(w) = t.reader.take() {
            w.wake();
        }
        Poll::Ready(Ok(n))
    }
    fn poll_flush(self: Pin<&mut Self>, _cx: &mut Context<'_>) -> Poll<io::Result<()>> {
        Poll::Ready(Ok(()))
    }
    fn poll_shutdown(self: Pin<&mut Self>, _cx: &mut Context<'_>) -> Poll<io::Result<()>> {
        let mut t = self.tx.borrow_mut();
        t.closed = true;
        if let Some(w) = t.reader.take() {
            w.wake();
        }
        Poll::Ready(Ok(()))
    }
}

// ------------------------------------------------------------------ monitored wrapper
#[derive(Clone, Debug)]
pub struct WireEv {
    pub link: usize,
    /// true: written at the client end / read at the server end (client -> server direction)
    pub c2s: bool,
    pub send: bool,
    pub item: Item,
    pub t_before: Instant,
    pub t_after: Instant,
    pub v_ms: u64,
    pub step: u64,
}
pub type WireLog = Rc<RefCell<Vec<WireEv>>>;

pub struct Monitored<T> {
    pub inner: T,
    pub link: usize,
    pub client_end: bool,
    pub log: WireLog,
}
impl<T: Unpin> Unpin for Monitored<T> {}
fn vnow() -> u64 {
    VNOW.with(|c| c.get().0)
}
impl<T, S> Sink<S> for Monitored<T>
where
    T: Sink<S> + Unpin,
    S: Abstract,
{
    type Error = T::Error;
    fn poll_ready(mut self: Pin<&mut Self>, cx: &mut Context<'_>) -> Poll<Result<(), T::Error>> {
        Pin::new(&mut self.inner).poll_ready(cx)
    }
    fn start_send(mut self: Pin<&mut Self>, item: S) -> Result<(), T::Error> {
        let abs = item.abs();
        let t_before = Instant::now();
        let r = Pin::new(&mut self.inner).start_send(item);
        let t_after = Instant::now();
        if r.is_ok() {
            let (link, c2s) = (self.link, self.client_end);
            self.log.borrow_mut().push(WireEv { link, c2s, send: true, item: abs, t_before, t_after, v_ms: vnow(), step: VNOW.with(|c| c.get().1) });
        }
        r
    }
    fn poll_flush(mut self: Pin<&mut Self>, cx: &mut Context<'_>) -> Poll<Result<(), T::Error>> {
        Pin::new(&mut self.inner).poll_flush(cx)
    }
    fn poll_close(mut self: Pin<&mut Self>, cx: &mut Context<'_>) -> Poll<Result<(), T::Error>> {
        Pin::new(&mut self.inner).poll_close(cx)
    }
}
impl<T, I, E> Stream for Monitored<T>
where
    T: Stream<Item = Result<I, E>> + Unpin,
    I: Abstract,
{
    type Item = Result<I, E>;
    fn poll_next(mut self: Pin<&mut Self>, cx: &mut Context<'_>) -> Poll<Option<Self::Item>> {
        let t_before = Instant::now();
        let r = Pin::new(&mut self.inner).poll_next(cx);
        let t_after = Instant::now();
        if let Poll::Ready(Some(Ok(i))) = &r {
            let (link, c2s) = (self.link, !self.client_end);
            self.log.borrow_mut().push(WireEv { link, c2s, send: false, item: i.abs(), t_before, t_after, v_ms: vnow(), step: VNOW.with(|c| c.get().1) });
        }
        r
    }
}

// ------------------------------------------------------------------ scenario
#[derive(Clone, Copy, Debug, PartialEq)]
pub enum Tk {
    Unbounded,
    Bounded(usize),
    Json,
    Bincode,
}
#[derive(Clone, Debug)]
pub struct Cfg {
    pub seed: u64,
    pub depth: usize,
    pub transports: Vec<Tk>,
    pub ncalls: usize,
    pub deadlines: Vec<Option<u64>>, // None => already expired
    pub abandon_pct: u64,
    pub max_chunk: usize,
    pub pending_pct: u64,
    pub real_transit: bool,
    pub leaf_gate: bool,
    pub label: &'static str,
    /// an OpenTelemetry subscriber is installed: the transmitted trace id comes from the span context
    pub otel: bool,
    /// 0 none, 1 formatting subscriber, 2 OpenTelemetry (always-on sampler), 3 OpenTelemetry (always-off sampler)
    pub sub: u8,
    /// under OpenTelemetry: handlers make their nested call with `context::current()`
    pub nested_with_current: bool,
    /// `max_in_flight_requests` of every client in the chain (None = the default)
    pub client_max_in_flight: Option<usize>,
}
impl Cfg {
    pub fn random(seed: u64) -> Cfg {
        let mut r = Rng::new(seed ^ 0xE2E);
        let depth = 1 + r.below(3);
        let kinds = [Tk::Unbounded, Tk::Bounded(1), Tk::Bounded(4), Tk::Json, Tk::Bincode];
        let transports = (0..depth).map(|_| *r.pick(&kinds)).collect();
        let all = [None, Some(0), Some(1), Some(1000), Some(10_000), Some(3 * 24 * 3600 * 1000)];
        Cfg {
            seed,
            depth,
            transports,
            ncalls: 1 + r.below(6),
            deadlines: (0..3).map(|_| *r.pick(&all)).chain(std::iter::once(Some(10_000))).collect(),
            abandon_pct: *r.pick(&[0, 20, 50]),
            max_chunk: *r.pick(&[1, 2, 7, 64, 4096]),
            pending_pct: *r.pick(&[0, 10, 40]),
            real_transit: r.chance(1, 30),
            leaf_gate: true,
            label: "random",
            otel: false,
            sub: 0,
            nested_with_current: false,
            client_max_in_flight: None,
        }
    }
    pub fn to_json(&self) -> serde_json::Value {
        json!({"family": "S-e2e", "label": self.label, "seed": self.seed, "depth": self.depth,
            "transports": format!("{:?}", self.transports), "ncalls": self.ncalls,
            "deadlines_ms(None=expired)": format!("{:?}", self.deadlines), "abandon_pct": self.abandon_pct,
            "max_chunk": self.max_chunk, "pending_pct": self.pending_pct, "real_transit": self.real_transit, "otel_subscriber": self.otel, "subscriber_mode": self.sub, "nested_with_current": self.nested_with_current})
    }
}

type BoxFut = Pin<Box<dyn Future<Output = ()>>>;
struct Task {
    name: String,
    fut: Option<BoxFut>,
    flag: std::sync::Arc<WakeFlag>,
    is_caller: Option<usize>,
}

#[derive(Clone, Debug)]
pub enum HEv {
    Start { hop: usize, call: String, deadline: Instant, trace: trace::Context, t: Instant, current_deadline: Instant, current_trace: trace::Context },
    Finish { hop: usize, call: String },
    Drop { hop: usize, call: String, finished: bool },
}
struct Shared {
    hev: Vec<HEv>,
    gates: BTreeMap<String, (bool, Option<Waker>)>,
    spawned: Vec<(String, BoxFut)>,
    inflight: Vec<Option<(usize, usize, usize)>>, // per hop: (reported, entries, timers)
    panics: Vec<String>,
    server_ended: Vec<bool>,
    real0: Instant,
}

#[derive(Clone)]
struct HopServe {
    hop: usize,
    depth: usize,
    sh: Rc<RefCell<Shared>>,
    next: Option<client::Channel<String, String>>,
    leaf_gate: bool,
    nested_with_current: bool,
}
struct LeafGate {
    sh: Rc<RefCell<Shared>>,
    key: String,
}
impl Future for LeafGate {
    type Output = ();
    fn poll(self: Pin<&mut Self>, cx: &mut Context<'_>) -> Poll<()> {
        let mut s = self.sh.borrow_mut();
        let g = s.gates.entry(self.key.clone()).or_insert((false, None));
        if g.0 {
            Poll::Ready(())
        } else {
            g.1 = Some(cx.waker().clone());
            Poll::Pending
        }
    }
}
struct DropNote {
    sh: Rc<RefCell<Shared>>,
    hop: usize,
    call: String,
    finished: bool,
}
impl Drop for DropNote {
    fn drop(&mut self) {
        let mut s = self.sh.borrow_mut();
        s.gates.remove(&format!("{}@{}", self.call, self.hop));
        let (hop, call, finished) = (self.hop, self.call.clone(), self.finished);
        s.hev.push(HEv::Drop { hop, call, finished });
    }
}
impl Serve for HopServe {
    type Req = String;
    type Resp = String;
    async fn serve(self, ctx: context::Context, req: String) -> Result<String, ServerError> {
        let cur = context::current();
        self.sh.borrow_mut().hev.push(HEv::Start { hop: self.hop, call: req.clone(), deadline: ctx.deadline, trace: ctx.trace_context, t: Instant::now(), current_deadline: cur.deadline, current_trace: cur.trace_context });
        let ctx = if self.nested_with_current { cur } else { ctx };
        let mut note = DropNote { sh: self.sh.clone(), hop: self.hop, call: req.clone(), finished: false };
        let out = if let Some(next) = &self.next {
            // nested call with the handler's own context
            match next.call(ctx, req.clone()).await {
                Ok(v) => Ok(format!("{v}<{}", self.hop)),
                Err(e) => Err(ServerError::new(io::ErrorKind::Other, format!("nested:{e}"))),
            }
        } else {
            if self.leaf_gate {
                LeafGate { sh: self.sh.clone(), key: format!("{}@{}", req, self.hop) }.await;
            }
            Ok(format!("leaf({req})@{}", self.depth))
        };
        note.finished = true;
        self.sh.borrow_mut().hev.push(HEv::Finish { hop: self.hop, call: req });
        out
    }
}

/// server driver: pulls requests and spawns their execution as separate tasks
struct Driver {
    reqs: Pin<Box<tarpc::server::Requests<BaseChannel<String, String, DynS>>>>,
    serve: HopServe,
    sh: Rc<RefCell<Shared>>,
    hop: usize,
}
impl Future for Driver {
    type Output = ();
    fn poll(mut self: Pin<&mut Self>, cx: &mut Context<'_>) -> Poll<()> {
        loop {
            let me = &mut *self;
            let r = me.reqs.as_mut().poll_next(cx);
            let rep = me.reqs.channel().in_flight_requests();
            let (e, t) = {
                let l = me.reqs.channel().verif_in_flight();
                (l.entries, l.timers)
            };
            me.sh.borrow_mut().inflight[me.hop] = Some((rep, e, t));
            match r {
                Poll::Pending => return Poll::Pending,
                Poll::Ready(None) => {
                    me.sh.borrow_mut().server_ended[me.hop] = true;
                    return Poll::Ready(());
                }
                Poll::Ready(Some(Err(_))) => {
                    me.sh.borrow_mut().server_ended[me.hop] = true;
                    return Poll::Ready(());
                }
                Poll::Ready(Some(Ok(req))) => {
                    let name = format!("handler{}:{}", me.hop, req.get().message);
                    let fut: BoxFut = Box::pin(req.execute(me.serve.clone()));
                    me.sh.borrow_mut().spawned.push((name, fut));
                }
            }
        }
    }
}

struct CallRec {
    body: String,
    d_ms: Option<u64>,
    deadline: Instant,
    trace: trace::Context,
    res: Option<Result<String, String>>,
    abandoned: bool,
    abandon_after: Option<u64>,
    started_step: u64,
}

pub fn run(cfg: &Cfg) -> Outcome {
    let rt = tokio::runtime::Builder::new_current_thread().enable_time().start_paused(true).build().unwrap();
    let mut out = Outcome::default();
    out.desc = cfg.to_json();
    let wall0 = Instant::now();
    rt.block_on(run_inner(cfg, &mut out));
    if wall0.elapsed() > Duration::from_secs(120) && out.viols.is_empty() {
        out.inconclusive = Some("scenario wall-clock watchdog (120 s)".into());
    }
    out
}

fn make_link(
    kind: Tk,
    link: usize,
    log: &WireLog,
    seed: u64,
    cfg: &Cfg,
) -> (
    Pin<Box<dyn TransportC>>,
    Pin<Box<dyn TransportS>>,
) {
    match kind {
        Tk::Unbounded => {
            let (c, s) = tarpc::transport::channel::unbounded::<Response<String>, ClientMessage<String>>();
            (
                Box::pin(ErrBox(Monitored { inner: c, link, client_end: true, log: log.clone() })),
                Box::pin(ErrBox(Monitored { inner: s, link, client_end: false, log: log.clone() })),
            )
        }
        Tk::Bounded(n) => {
            let (c, s) = tarpc::transport::channel::bounded::<Response<String>, ClientMessage<String>>(n);
            (
                Box::pin(ErrBox(Monitored { inner: c, link, client_end: true, log: log.clone() })),
                Box::pin(ErrBox(Monitored { inner: s, link, client_end: false, log: log.clone() })),
            )
        }
        Tk::Json => {
            let (a, b) = frag_pipe(seed, cfg.max_chunk, cfg.pending_pct);
            let c = tarpc::serde_transport::new(Framed::new(a, LengthDelimitedCodec::new()), tokio_serde::formats::Json::<Response<String>, ClientMessage<String>>::default());
            let s = tarpc::serde_transport::new(Framed::new(b, LengthDelimitedCodec::new()), tokio_serde::formats::Json::<ClientMessage<String>, Response<String>>::default());
            (
                Box::pin(ErrBox(Monitored { inner: c, link, client_end: true, log: log.clone() })),
                Box::pin(ErrBox(Monitored { inner: s, link, client_end: false, log: log.clone() })),
            )
        }
        Tk::Bincode => {
            let (a, b) = frag_pipe(seed, cfg.max_chunk, cfg.pending_pct);
            let c = tarpc::serde_transport::new(Framed::new(a, LengthDelimitedCodec::new()), tokio_serde::formats::Bincode::<Response<String>, ClientMessage<String>>::default());
            let s = tarpc::serde_transport::new(Framed::new(b, LengthDelimitedCodec::new()), tokio_serde::formats::Bincode::<ClientMessage<String>, Response<String>>::default());
            (
                Box::pin(ErrBox(Monitored { inner: c, link, client_end: true, log: log.clone() })),
                Box::pin(ErrBox(Monitored { inner: s, link, client_end: false, log: log.clone() })),
            )
        }
    }
}

/// erases the transport's error type
pub struct ErrBox<T>(pub T);
impl<T: Unpin> Unpin for ErrBox<T> {}
#[derive(Debug)]
pub struct AnyErr(pub String);
impl std::fmt::Display for AnyErr {
    fn fmt(&self, f: &mut std::fmt::Formatter) -> std::fmt::Result {
        write!(f, "{}", self.0)
    }
}
impl std::error::Error for AnyErr {}
impl<T, S> Sink<S> for ErrBox<T>
where
    T: Sink<S> + Unpin,
    T::Error: std::fmt::Display,
{
    type Error = AnyErr;
    fn poll_ready(mut self: Pin<&mut Self>, cx: &mut Context<'_>) -> Poll<Result<(), AnyErr>> {
        Pin::new(&mut self.0).poll_ready(cx).map_err(|e| AnyErr(e.to_string()))
    }
    fn start_send(mut self: Pin<&mut Self>, item: S) -> Result<(), AnyErr> {
        Pin::new(&mut self.0).start_send(item).map_err(|e| AnyErr(e.to_string()))
    }
    fn poll_flush(mut self: Pin<&mut Self>, cx: &mut Context<'_>) -> Poll<Result<(), AnyErr>> {
        Pin::new(&mut self.0).poll_flush(cx).map_err(|e| AnyErr(e.to_string()))
    }
    fn poll_close(mut self: Pin<&mut Self>, cx: &mut Context<'_>) -> Poll<Result<(), AnyErr>> {
        Pin::new(&mut self.0).poll_close(cx).map_err(|e| AnyErr(e.to_string()))
    }
}
impl<T, I, E> Stream for ErrBox<T>
where
    T: Stream<Item = Result<I, E>> + Unpin,
    E: std::fmt::Display,
{
    type Item = Result<I, AnyErr>;
    fn poll_next(mut self: Pin<&mut Self>, cx: &mut Context<'_>) -> Poll<Option<Self::Item>> {
        Pin::new(&mut self.0).poll_next(cx).map(|o| o.map(|r| r.map_err(|e| AnyErr(e.to_string()))))
    }
}
pub trait TransportC: Sink<ClientMessage<String>, Error = AnyErr> + Stream<Item = Result<Response<String>, AnyErr>> {}
impl<T> TransportC for T where T: Sink<ClientMessage<String>, Error = AnyErr> + Stream<Item = Result<Response<String>, AnyErr>> {}
pub trait TransportS: Sink<Response<String>, Error = AnyErr> + Stream<Item = Result<ClientMessage<String>, AnyErr>> {}
impl<T> TransportS for T where T: Sink<Response<String>, Error = AnyErr> + Stream<Item = Result<ClientMessage<String>, AnyErr>> {}

type DynC = Pin<Box<dyn TransportC>>;
type DynS = Pin<Box<dyn TransportS>>;

async fn run_inner(cfg: &Cfg, out: &mut Outcome) {
    let mut rng = Rng::new(cfg.seed);
    let t0 = tokio::time::Instant::now();
    let vms = move || t0.elapsed().as_millis() as u64;
    let log: WireLog = Rc::new(RefCell::new(vec![]));
    let sh = Rc::new(RefCell::new(Shared {
        hev: vec![],
        gates: BTreeMap::new(),
        spawned: vec![],
        inflight: vec![None; cfg.depth],
        panics: vec![],
        server_ended: vec![false; cfg.depth],
        real0: Instant::now(),
    }));
    let mut tasks: Vec<Task> = vec![];
    // build the chain from the leaf upwards
    let mut next_client: Option<client::Channel<String, String>> = None;
    let mut head: Option<client::Channel<String, String>> = None;
    for hop in (0..cfg.depth).rev() {
        let (ct, st): (DynC, DynS) = make_link(cfg.transports[hop], hop, &log, mix(cfg.seed, hop as u64), cfg);
        let serve = HopServe { hop, depth: cfg.depth, sh: sh.clone(), next: next_client.take(), leaf_gate: cfg.leaf_gate, nested_with_current: cfg.nested_with_current && cfg.otel };
        let base = BaseChannel::with_defaults(st);
        let drv = Driver { reqs: Box::pin(base.requests()), serve, sh: sh.clone(), hop };
        tasks.push(Task { name: format!("server{hop}"), fut: Some(Box::pin(drv)), flag: flag(), is_caller: None });
        let mut ccfg = client::Config::default();
        if let Some(m) = cfg.client_max_in_flight {
            ccfg.max_in_flight_requests = m;
        }
        let nc = client::new::<String, String, _>(ccfg, ct);
        let disp = nc.dispatch;
        tasks.push(Task { name: format!("dispatch{hop}"), fut: Some(Box::pin(async move { let _ = disp.await; })), flag: flag(), is_caller: None });
        if hop == 0 {
            head = Some(nc.client);
        } else {
            next_client = Some(nc.client);
        }
    }
    let mut head = head;
    let mut calls: Vec<CallRec> = vec![];
    let results: Rc<RefCell<HashMap<usize, Result<String, String>>>> = Rc::new(RefCell::new(HashMap::new()));
    let mut to_start = cfg.ncalls;
    let mut step = 0u64;
    let mut tlog: Vec<String> = vec![];
    let mut final_phase = 0;
    loop {
        step += 1;
        set_vnow(vms(), step);
        if step > 100_000 {
            out.inconclusive = Some("scenario step limit".into());
            break;
        }
        // adopt spawned tasks
        let sp: Vec<(String, BoxFut)> = sh.borrow_mut().spawned.drain(..).collect();
        for (name, fut) in sp {
            tasks.push(Task { name, fut: Some(fut), flag: flag(), is_caller: None });
        }
        for (i, r) in results.borrow_mut().drain() {
            calls[i].res = Some(r);
        }
        #[derive(Clone, Debug)]
        enum A {
            Poll(usize),
            Start,
            Abandon(usize),
            Gate(String),
            DropHead,
            Advance(u64),
            RealSleep,
        }
        let mut acts: Vec<A> = vec![];
        for (i, t) in tasks.iter().enumerate() {
            if t.fut.is_some() && t.flag.is_woken() {
                acts.push(A::Poll(i));
            }
        }
        let runnable = !acts.is_empty();
        if to_start > 0 && head.is_some() {
            acts.push(A::Start);
        }
        for (i, t) in tasks.iter().enumerate() {
            if let (Some(c), true) = (t.is_caller, t.fut.is_some()) {
                if let Some(a) = calls[c].abandon_after {
                    if step >= calls[c].started_step + a {
                        acts.push(A::Abandon(i));
                    }
                }
            }
        }
        {
            let s = sh.borrow();
            for (k, g) in s.gates.iter() {
                if !g.0 && g.1.is_some() && rng.chance(1, 2) {
                    acts.push(A::Gate(k.clone()));
                }
            }
        }
        let closed_gates: Vec<String> = sh.borrow().gates.iter().filter(|(_, g)| !g.0 && g.1.is_some()).map(|(k, _)| k.clone()).collect();
        let callers_alive = tasks.iter().any(|t| t.is_caller.is_some() && t.fut.is_some());
        if to_start == 0 && head.is_some() && !callers_alive && rng.chance(1, 3) {
            acts.push(A::DropHead);
        }
        let env = acts.iter().any(|a| !matches!(a, A::Poll(_))) || !closed_gates.is_empty();
        if !runnable {
            // clock-stopped idle point: cascade obligations (C04) are checked here
            idle_oracles(cfg, &sh, &calls, &log, &tasks, out);
        }
        let act = if !runnable && !env {
            if tasks.iter().all(|t| t.fut.is_none()) {
                break;
            }
            if head.is_some() && to_start == 0 && !callers_alive {
                A::DropHead
            } else {
                final_phase += 1;
                if final_phase > 40 {
                    break;
                }
                // advance to the next deadline of a pending call
                let now = vms();
                let nd = calls.iter().filter(|c| c.res.is_none() && !c.abandoned).filter_map(|c| c.d_ms).map(|d| d + 5).filter(|d| *d > now).min();
                A::Advance(nd.map(|d| d - now).unwrap_or(1000).min(crate::sclient::YEAR_MS + 1000))
            }
        } else {
            if !runnable && !closed_gates.is_empty() && !acts.iter().any(|a| matches!(a, A::Gate(_))) {
                acts.push(A::Gate(closed_gates[rng.below(closed_gates.len())].clone()));
            }
            if rng.chance(1, 8) {
                acts.push(A::Advance(*rng.pick(&[1, 5, 50, 500])));
            }
            if cfg.real_transit && rng.chance(1, 10) {
                acts.push(A::RealSleep);
            }
            acts[rng.below(acts.len())].clone()
        };
        match &act {
            A::Poll(i) => tlog.push(format!("{}@{} poll {}", step, vms(), tasks[*i].name)),
            a => tlog.push(format!("{}@{} {:?}", step, vms(), a)),
        }
        match act {
            A::Poll(i) => {
                let t = &mut tasks[i];
                t.flag.clear();
                let w = waker(t.flag.clone());
                let r = catch_unwind(AssertUnwindSafe(|| {
                    let f = t.fut.as_mut().unwrap();
                    poll_unconstrained(&mut Context::from_waker(&w), |cx| f.as_mut().poll(cx))
                }));
                match r {
                    Err(p) => {
                        sh.borrow_mut().panics.push(format!("{}: {}", t.name, panic_msg(&p)));
                        t.fut = None;
                    }
                    Ok(Poll::Ready(())) => t.fut = None,
                    Ok(Poll::Pending) => {}
                }
            }
            A::Start => {
                to_start -= 1;
                let n = calls.len();
                let body = format!("c{n}");
                let d = *rng.pick(&cfg.deadlines);
                let mut ctx = context::current();
                let now = Instant::now();
                ctx.deadline = match d {
                    None => now.checked_sub(Duration::from_millis(3)).unwrap_or(now),
                    Some(ms) => now + Duration::from_millis(ms),
                };
                let mut tb = [0u8; 16];
                tb[..8].copy_from_slice(&(0xE2E0_0000u64 + n as u64).to_le_bytes());
                tb[8..].copy_from_slice(&cfg.seed.to_le_bytes());
                ctx.trace_context.trace_id = trace::TraceId::from(u128::from_le_bytes(tb));
                if n == 2 {
                    // boundary: the all-zero trace id (sampled, since n is even)
                    ctx.trace_context.trace_id = trace::TraceId::from(0u128);
                    out.cell("C18.boundary-trace-id");
                }
                ctx.trace_context.span_id = trace::SpanId::from(0x9000 + n as u64);
                ctx.trace_context.sampling_decision = if n % 2 == 0 { trace::SamplingDecision::Sampled } else { trace::SamplingDecision::Unsampled };
                let ch = head.as_ref().unwrap().clone();
                let res = results.clone();
                let b2 = body.clone();
                let fut: BoxFut = Box::pin(async move {
                    let r = ch.call(ctx, b2).await;
                    res.borrow_mut().insert(n, r.map_err(|e| match e {
                        RpcError::DeadlineExceeded => "deadline".to_string(),
                        RpcError::Server(e) => format!("server:{}", e.detail),
                        e => e.to_string(),
                    }));
                });
                let abandon = if (rng.below(100) as u64) < cfg.abandon_pct { Some(2 + rng.below(40) as u64) } else { None };
                calls.push(CallRec { body, d_ms: d.map(|x| x + vms()), deadline: ctx.deadline, trace: ctx.trace_context, res: None, abandoned: false, abandon_after: abandon, started_step: step });
                tasks.push(Task { name: format!("caller{n}"), fut: Some(fut), flag: flag(), is_caller: Some(n) });
            }
            A::Abandon(i) => {
                if let Some(c) = tasks[i].is_caller {
                    if tasks[i].fut.is_some() {
                        tasks[i].fut = None;
                        calls[c].abandoned = true;
                        out.cell("C04.chain.head-abandoned");
                    }
                }
            }
            A::Gate(k) => {
                let mut s = sh.borrow_mut();
                if let Some(g) = s.gates.get_mut(&k) {
                    g.0 = true;
                    if let Some(w) = g.1.take() {
                        w.wake();
                    }
                }
            }
            A::DropHead => head = None,
            A::Advance(d) => {
                set_vnow(vms() + d, step);
                tokio::time::advance(Duration::from_millis(d)).await;
            }
            A::RealSleep => {
                std::thread::sleep(Duration::from_millis(1 + rng.below(6) as u64));
                out.cell("C07.real-transit-delay");
            }
        }
    }
    for (i, r) in results.borrow_mut().drain() {
        calls[i].res = Some(r);
    }
    final_oracles(cfg, &sh, &calls, &log, &tasks, vms(), out);
    let mut h = FNV0;
    for l in tlog.iter() {
        let k = l.split_whitespace().nth(1).unwrap_or("");
        fnv(&mut h, k);
        if k == "poll" {
            let n = l.split_whitespace().nth(2).unwrap_or("");
            fnv(&mut h, n.trim_end_matches(char::is_numeric));
        }
    }
    out.sig = h;
    let extra_trace = std::mem::take(&mut out.trace);
    out.trace = tlog;
    out.trace.extend(extra_trace);
    tasks.clear();
}

fn idle_oracles(cfg: &Cfg, sh: &Rc<RefCell<Shared>>, calls: &[CallRec], _log: &WireLog, _tasks: &[Task], out: &mut Outcome) {
    // C04 cascade: an abandoned head call leaves no unfinished handler alive anywhere down the chain
    let s = sh.borrow();
    let now = vnow();
    for c in calls.iter().filter(|c| c.abandoned) {
        // a request whose deadline is possibly reached has ended from the dispatcher's view: no
        // cancellation is owed for it (C03), the servers' own timers end the handlers
        match c.d_ms {
            Some(abs) if now + 5 + (s.real0.elapsed().as_millis() as u64) < abs => {}
            _ => continue,
        }
        let mut alive: Vec<usize> = vec![];
        let mut started: BTreeMap<usize, bool> = BTreeMap::new();
        for e in s.hev.iter() {
            match e {
                HEv::Start { hop, call, .. } if *call == c.body => {
                    started.insert(*hop, true);
                }
                HEv::Drop { hop, call, .. } if *call == c.body => {
                    started.insert(*hop, false);
                }
                _ => {}
            }
        }
        for (hop, a) in started.iter() {
            if *a {
                alive.push(*hop);
            }
        }
        if !alive.is_empty() {
            out.viol("C04", "cascade-handler-alive", format!("head call {} was abandoned, yet at a clock-stopped idle point its handlers at hops {:?} (chain depth {}) are still alive", c.body, alive, cfg.depth));
        }
        if started.len() > 1 {
            out.cell(format!("C04.chain.cascade-depth{}", started.len()));
        }
        if !started.is_empty() {
            out.nontrivial("C04");
        }
    }
}

fn final_oracles(cfg: &Cfg, sh: &Rc<RefCell<Shared>>, calls: &[CallRec], log: &WireLog, tasks: &[Task], now: u64, out: &mut Outcome) {
    let s = sh.borrow();
    let log = log.borrow();
    for p in s.panics.iter() {
        out.viol("C16", "panic", format!("panic in e2e scenario: {p}"));
    }
    // ---- C15: on every link and direction, items received == items sent, in order (prefix if the run was cut)
    for link in 0..cfg.depth {
        for c2s in [true, false] {
            let sent: Vec<&WireEv> = log.iter().filter(|e| e.link == link && e.c2s == c2s && e.send).collect();
            let recv: Vec<&WireEv> = log.iter().filter(|e| e.link == link && e.c2s == c2s && !e.send).collect();
            if recv.len() > sent.len() {
                out.viol("C15", "more-received-than-sent", format!("link {link} ({:?}) c2s={c2s}: {} items read but only {} written", cfg.transports[link], recv.len(), sent.len()));
            }
            for (k, (a, b)) in sent.iter().zip(recv.iter()).enumerate() {
                if !same_item(&a.item, &b.item) {
                    out.viol("C15", "item-altered-or-reordered", format!("link {link} ({:?}) c2s={c2s}: item #{k} written as {:?} but read as {:?}", cfg.transports[link], a.item, b.item));
                    break;
                }
            }
            if !sent.is_empty() {
                out.nontrivial("C15");
                out.cell(format!("C15.e2e.{:?}", cfg.transports[link]).replace(['(', ')'], "_"));
            }
        }
    }
    // ---- per call / per hop: C07 and C18
    for c in calls.iter() {
        // request items of this call on each link (client end writes)
        let mut prev_deadline = c.deadline;
        let mut acc_upper = Duration::ZERO;
        let mut first_wire_trace: Option<trace::Context> = None;
        // a deadline that passes before (or while) a hop sends it arrives as "now": from then on
        // the chain bound no longer applies (the per-hop rules do)
        let mut expired_on_the_way = c.d_ms.is_none();
        for hop in 0..cfg.depth {
            let sent = log.iter().find(|e| e.link == hop && e.c2s && e.send && matches!(&e.item, Item::Req { body, .. } if *body == c.body));
            let recv = log.iter().find(|e| e.link == hop && e.c2s && !e.send && matches!(&e.item, Item::Req { body, .. } if *body == c.body));
            let start = s.hev.iter().find_map(|e| match e {
                HEv::Start { hop: h, call, deadline, trace, .. } if *h == hop && *call == c.body => Some((*deadline, *trace)),
                _ => None,
            });
            if cfg.otel {
                if let Some(HEv::Start { deadline, current_deadline, trace, current_trace, .. }) = s.hev.iter().find(|e| matches!(e, HEv::Start { hop: h, call, .. } if *h == hop && *call == c.body)) {
                    if current_deadline != deadline {
                        let d = if current_deadline > deadline { *current_deadline - *deadline } else { *deadline - *current_deadline };
                        out.viol("C07", "current-context-deadline-differs", format!("call {} hop {hop}: context::current() inside the handler reports a deadline {d:?} away from the request's deadline (OpenTelemetry subscriber, sampler {})", c.body, if cfg.sub == 3 { "always-off" } else { "always-on" }));
                    }
                    if current_trace.trace_id != trace.trace_id {
                        out.viol("C18", "current-context-trace-differs", format!("call {} hop {hop}: context::current() inside the handler reports another trace id than the handler's context", c.body));
                    }
                    out.cell(format!("C07.current-context.sub{}", cfg.sub));
                }
            }
            let (Some(sent), Some(recv)) = (sent, recv) else { break };
            let (Item::Req { trace: wt, id: wid, .. }, Item::Req { deadline: rd, trace: rt, .. }) = (&sent.item, &recv.item) else { break };
            let serde_link = matches!(cfg.transports[hop], Tk::Json | Tk::Bincode);
            // C18: without a subscriber the wire carries the caller's trace id and sampling; in every
            // mode each further hop carries what the first hop transmitted; span id fresh per hop
            let expect_trace = if hop == 0 {
                if cfg.otel {
                    *wt
                } else {
                    c.trace
                }
            } else {
                first_wire_trace.unwrap_or(c.trace)
            };
            if hop == 0 {
                first_wire_trace = Some(*wt);
            }
            if wt.trace_id != expect_trace.trace_id || wt.sampling_decision != expect_trace.sampling_decision {
                out.viol("C18", "wire-trace-differs", format!("call {} hop {hop}: Request transmitted with trace {:?}/{:?}, expected {:?}/{:?} ({})", c.body, wt.trace_id, wt.sampling_decision, expect_trace.trace_id, expect_trace.sampling_decision, if hop == 0 { "what the head caller supplied" } else { "what the previous hop transmitted" }));
            }
            if rt.trace_id != wt.trace_id || rt.span_id != wt.span_id || rt.sampling_decision != wt.sampling_decision {
                out.viol("C15", "trace-context-altered-in-transit", format!("call {} hop {hop}: trace context written {wt:?}, read {rt:?}", c.body));
            }
            if let Some((hd, ht)) = start {
                if ht.trace_id != wt.trace_id || ht.sampling_decision != wt.sampling_decision {
                    out.viol("C18", "handler-trace-differs", format!("call {} hop {hop}: handler observed trace {:?}/{:?}, the request was transmitted with {:?}/{:?}", c.body, ht.trace_id, ht.sampling_decision, wt.trace_id, wt.sampling_decision));
                }
                if ht.span_id == wt.span_id {
                    out.viol("C18", "hop-span-not-fresh", format!("call {} hop {hop}: the handler's context carries the same span id as the wire request", c.body));
                }
                out.nontrivial("C18");
                if hd != *rd {
                    out.viol("C07", "handler-deadline-differs-from-decoded", format!("call {} hop {hop}: decoded deadline and the deadline given to the handler differ by {:?}", c.body, if hd > *rd { hd - *rd } else { *rd - hd }));
                }
            }
            // C07: shift of this hop, judged on the deadline the receiving channel decoded (which is
            // what a handler is given; a request that expired on arrival may never reach a handler)
            {
                let hd = start.map(|x| x.0).unwrap_or(*rd);
                let expired_at_send = prev_deadline <= sent.t_before;
                if !serde_link {
                    if hd != prev_deadline {
                        out.viol("C07", "in-memory-deadline-changed", format!("call {} hop {hop} (in-memory): handler deadline differs from the sender's by {:?}", c.body, if hd > prev_deadline { hd - prev_deadline } else { prev_deadline - hd }));
                    }
                } else if expired_at_send {
                    // arrives as "now"
                    if hd < recv.t_before || hd > recv.t_after {
                        out.viol("C07", "expired-deadline-not-now", format!("call {} hop {hop}: a deadline that had already passed when sent arrived {:?} away from the decode instant", c.body, if hd > recv.t_after { hd - recv.t_after } else { recv.t_before.saturating_duration_since(hd) }));
                    }
                    out.cell("C07.expired-on-send");
                    expired_on_the_way = true;
                    acc_upper += recv.t_after.saturating_duration_since(sent.t_before);
                } else {
                    let lower = recv.t_before.saturating_duration_since(sent.t_after);
                    let upper = recv.t_after.saturating_duration_since(sent.t_before);
                    if prev_deadline <= sent.t_after {
                        expired_on_the_way = true;
                    }
                    if hd < prev_deadline {
                        // possibly expired between the bracket ends: then "now" is allowed
                        if !(prev_deadline <= sent.t_after && hd >= recv.t_before) {
                            out.viol("C07", "deadline-earlier", format!("call {} hop {hop} ({:?}): the handler's deadline is {:?} EARLIER than the sender's", c.body, cfg.transports[hop], prev_deadline - hd));
                        }
                    } else {
                        let shift = hd - prev_deadline;
                        if shift > upper + Duration::from_nanos(1) {
                            out.viol("C07", "deadline-stretched", format!("call {} hop {hop} ({:?}): the handler's deadline is {shift:?} later than the sender's but the request spent at most {upper:?} in transit", c.body, cfg.transports[hop]));
                        }
                        if shift + Duration::from_nanos(1) < lower {
                            out.viol("C07", "deadline-shift-below-transit", format!("call {} hop {hop}: shift {shift:?} is less than the minimum transit {lower:?}", c.body));
                        }
                    }
                    acc_upper += upper;
                }
                out.nontrivial("C07");
                out.cell(format!("C07.hop{}.{}", hop + 1, if serde_link { "serde" } else { "in-memory" }));
                prev_deadline = hd;
            }
            // C18: cancel for this request carries the same trace/span
            if let Some(cx) = log.iter().find(|e| e.link == hop && e.c2s && e.send && matches!(&e.item, Item::Cancel { id, .. } if id == wid)) {
                if let Item::Cancel { trace: ct, .. } = &cx.item {
                    if ct.trace_id != wt.trace_id || ct.span_id != wt.span_id {
                        out.viol("C18", "cancel-trace-mismatch", format!("call {} hop {hop}: Cancel carries {:?}/{:?}, its Request carried {:?}/{:?}", c.body, ct.trace_id, ct.span_id, wt.trace_id, wt.span_id));
                    }
                    out.cell("C18.cancel-observed");
                }
            }
        }
        // total stretch across the chain
        if let Some(HEv::Start { deadline, .. }) = s.hev.iter().rev().find(|e| matches!(e, HEv::Start { hop, call, .. } if *hop == cfg.depth - 1 && *call == c.body)) {
            if *deadline > c.deadline && *deadline - c.deadline > acc_upper + Duration::from_nanos(cfg.depth as u64) && c.deadline > Instant::now() - Duration::from_secs(3600) {
                // only meaningful when the deadline was not expired on the way (then "now" applies)
                if !expired_on_the_way {
                    out.viol("C07", "chain-deadline-stretched", format!("call {}: the leaf handler's deadline outlives the head caller's by {:?} > accumulated transit {:?}", c.body, *deadline - c.deadline, acc_upper));
                }
            }
        }
        // ---- C02 end to end: every call resolved by quiescence
        if c.res.is_none() && !c.abandoned {
            out.viol("C02", "e2e-call-pending-at-quiescence", format!("call {} never resolved (now {}ms, deadline {:?}ms)", c.body, now, c.d_ms));
        }
        match &c.res {
            Some(Ok(v)) => {
                // C01/C17-style end-to-end: the reply is the leaf's result for this very call, wrapped by every hop
                let mut want = format!("leaf({})@{}", c.body, cfg.depth);
                for hop in (0..cfg.depth.saturating_sub(1)).rev() {
                    want = format!("{want}<{hop}");
                }
                if *v != want {
                    out.viol("C01", "e2e-wrong-reply", format!("call {} returned {v:?}, expected {want:?}", c.body));
                }
                out.nontrivial("C02");
            }
            Some(Err(_)) => out.nontrivial("C02"),
            None => {}
        }
    }
    // two hops never share a span id for one call
    {
        let mut seen: HashMap<(String, u64), usize> = HashMap::new();
        for e in log.iter().filter(|e| e.send && e.c2s) {
            if let Item::Req { body, trace, .. } = &e.item {
                let k = (body.clone(), u64::from(trace.span_id));
                if let Some(prev) = seen.insert(k, e.link) {
                    if prev != e.link {
                        out.viol("C18", "hops-share-span-id", format!("call {body}: links {prev} and {} transmit the same span id", e.link));
                    }
                }
            }
        }
    }
    // ---- C11 end state: all over => zero tracked everywhere
    let all_over = calls.iter().all(|c| c.res.is_some() || c.abandoned);
    if all_over {
        for (hop, inf) in s.inflight.iter().enumerate() {
            if let Some((rep, e, t)) = inf {
                if !s.server_ended[hop] && (*rep != 0 || *e != 0 || *t != 0) {
                    out.viol("C11", "e2e-server-not-reclaimed", format!("all calls resolved or dropped, yet server at hop {hop} reports {rep} in flight ({e} entries, {t} timers)"));
                }
            }
        }
        out.nontrivial("C11");
    }
    let _ = tasks;
    out.count("e2e_calls", calls.len() as u64);
    out.count("wire_events", log.len() as u64);
    out.count("handler_events", s.hev.len() as u64);
    out.cell(format!("e2e.depth{}", cfg.depth));
    if !out.viols.is_empty() {
        // witness detail: what crossed every link and what the handlers did
        for e in log.iter() {
            out.trace.push(format!("   wire step{} link{} {} {} {:?}", e.step, e.link, if e.c2s { "c->s" } else { "s->c" }, if e.send { "written" } else { "read" }, match &e.item { Item::Req { id, body, .. } => format!("Request id={id} {body}"), Item::Cancel { id, .. } => format!("Cancel id={id}"), Item::Resp { id, body } => format!("Response id={id} {:?}", body.as_ref().map(|b| b.chars().take(30).collect::<String>())) }));
        }
        for e in s.hev.iter() {
            out.trace.push(format!("   handler {}", match e { HEv::Start { hop, call, .. } => format!("start hop{hop} {call}"), HEv::Finish { hop, call } => format!("finish hop{hop} {call}"), HEv::Drop { hop, call, finished } => format!("drop hop{hop} {call} finished={finished}") }));
        }
    }
    if cfg.otel {
        out.cell("C18.otel-subscriber");
        out.cell(format!("e2e.subscriber-mode{}", cfg.sub));
        // keep the wire view of the requests in the witness
        for e in log.iter().filter(|e| e.c2s && e.send) {
            if let Item::Req { id, body, trace, .. } = &e.item {
                out.trace.push(format!("   wire link{} Request id={id} body={body} trace={:?} span={:?}", e.link, trace.trace_id, trace.span_id));
            }
        }
        for e in s.hev.iter() {
            if let HEv::Start { hop, call, trace, .. } = e {
                out.trace.push(format!("   handler hop{hop} call={call} ctx.trace={:?} span={:?}", trace.trace_id, trace.span_id));
            }
        }
    }
}

fn same_item(a: &Item, b: &Item) -> bool {
    match (a, b) {
        (Item::Req { id: i1, body: b1, trace: t1, .. }, Item::Req { id: i2, body: b2, trace: t2, .. }) => i1 == i2 && b1 == b2 && t1 == t2,
        (Item::Cancel { id: i1, trace: t1 }, Item::Cancel { id: i2, trace: t2 }) => i1 == i2 && t1 == t2,
        (Item::Resp { id: i1, body: b1 }, Item::Resp { id: i2, body: b2 }) => i1 == i2 && b1 == b2,
        _ => false,
    }
}
