//! Shared infrastructure: PRNG, wake flags, violations, aggregation, evidence, replay files.
use futures::task::ArcWake;
use serde_json::{json, Value};
use std::{
    collections::{BTreeMap, BTreeSet, HashSet},
    sync::{
        atomic::{AtomicBool, AtomicUsize, Ordering},
        Arc, Mutex,
    },
    time::Instant,
};

// ---------------------------------------------------------------- rng
#[derive(Clone, Debug)]
pub struct Rng(pub u64);
impl Rng {
    pub fn new(seed: u64) -> Self {
        let mut r = Rng(seed ^ 0x5DEE_CE66_D1CE_4E5B);
        r.next();
        r
    }
    pub fn next(&mut self) -> u64 {
        self.0 = self.0.wrapping_add(0x9E37_79B9_7F4A_7C15);
        let mut z = self.0;
        z = (z ^ (z >> 30)).wrapping_mul(0xBF58_476D_1CE4_E5B9);
        z = (z ^ (z >> 27)).wrapping_mul(0x94D0_49BB_1331_11EB);
        z ^ (z >> 31)
    }
    pub fn below(&mut self, n: usize) -> usize {
        if n == 0 {
            return 0;
        }
        (self.next() % n as u64) as usize
    }
    pub fn range(&mut self, lo: usize, hi_incl: usize) -> usize {
        lo + self.below(hi_incl - lo + 1)
    }
    pub fn chance(&mut self, num: u64, den: u64) -> bool {
        self.next() % den < num
    }
    pub fn pick<'a, T>(&mut self, xs: &'a [T]) -> &'a T {
        &xs[self.below(xs.len())]
    }
    pub fn shuffle<T>(&mut self, xs: &mut [T]) {
        for i in (1..xs.len()).rev() {
            let j = self.below(i + 1);
            xs.swap(i, j);
        }
    }
}

pub fn mix(a: u64, b: u64) -> u64 {
    let mut r = Rng(a ^ b.wrapping_mul(0x9E37_79B9_7F4A_7C15));
    r.next()
}

pub fn fnv(h: &mut u64, s: &str) {
    for b in s.bytes() {
        *h = (*h ^ b as u64).wrapping_mul(1099511628211);
    }
    *h = (*h ^ 0xff).wrapping_mul(1099511628211);
}
pub const FNV0: u64 = 1469598103934665603;

// ---------------------------------------------------------------- wakers
thread_local! {
    /// virtual "now" (ms) and scheduler step of the scenario running on this thread
    pub static VNOW: std::cell::Cell<(u64, u64)> = const { std::cell::Cell::new((0, 0)) };
}
pub fn set_vnow(ms: u64, step: u64) {
    VNOW.with(|c| c.set((ms, step)));
}
pub struct WakeFlag {
    pub woken: AtomicBool,
    pub count: AtomicUsize,
    /// virtual ms / step at which the flag went from clear to set
    pub woke_ms: std::sync::atomic::AtomicU64,
    pub woke_step: std::sync::atomic::AtomicU64,
}
impl ArcWake for WakeFlag {
    fn wake_by_ref(a: &Arc<Self>) {
        if !a.woken.swap(true, Ordering::SeqCst) {
            let (ms, step) = VNOW.with(|c| c.get());
            a.woke_ms.store(ms, Ordering::SeqCst);
            a.woke_step.store(step, Ordering::SeqCst);
        }
        a.count.fetch_add(1, Ordering::SeqCst);
    }
}
pub fn flag() -> Arc<WakeFlag> {
    let (ms, step) = VNOW.with(|c| c.get());
    Arc::new(WakeFlag {
        woken: AtomicBool::new(true),
        count: AtomicUsize::new(0),
        woke_ms: std::sync::atomic::AtomicU64::new(ms),
        woke_step: std::sync::atomic::AtomicU64::new(step),
    })
}
impl WakeFlag {
    pub fn is_woken(&self) -> bool {
        self.woken.load(Ordering::SeqCst)
    }
    pub fn clear(&self) {
        self.woken.store(false, Ordering::SeqCst)
    }
}

// ---------------------------------------------------------------- violations
#[derive(Clone, Debug)]
pub struct Viol {
    pub prop: &'static str,
    /// oracle rule, e.g. "foreign-reply"
    pub rule: String,
    /// distinguishing state for known-finding signatures, e.g. "limiter=at-limit/sink=not-ready"
    pub state: String,
    pub msg: String,
}
impl Viol {
    pub fn new(prop: &'static str, rule: &str, msg: String) -> Viol {
        Viol {
            prop,
            rule: rule.to_string(),
            state: String::new(),
            msg,
        }
    }
    pub fn with_state(mut self, s: &str) -> Viol {
        self.state = s.to_string();
        self
    }
    pub fn signature(&self) -> String {
        if self.state.is_empty() {
            format!("{}/{}", self.prop, self.rule)
        } else {
            format!("{}/{}/{}", self.prop, self.rule, self.state)
        }
    }
}

/// What one scenario reports back.
#[derive(Default)]
pub struct Outcome {
    pub viols: Vec<Viol>,
    /// coverage cells reached (free-form names)
    pub cells: Vec<String>,
    /// behaviour signature (hash of the abstracted event sequence)
    pub sig: u64,
    /// properties whose premise was really exercised in this scenario
    pub nontrivial: Vec<&'static str>,
    /// abstract trace (kept short); used for samples and replay witnesses
    pub trace: Vec<String>,
    /// scenario description (family, config, seed) – enough to replay
    pub desc: Value,
    /// named counters (events observed)
    pub counters: BTreeMap<&'static str, u64>,
    /// harness trouble (never a violation)
    pub inconclusive: Option<String>,
}
impl Outcome {
    pub fn viol(&mut self, prop: &'static str, rule: &str, msg: String) {
        self.viols.push(Viol::new(prop, rule, msg));
    }
    pub fn cell(&mut self, c: impl Into<String>) {
        self.cells.push(c.into());
    }
    pub fn count(&mut self, k: &'static str, n: u64) {
        *self.counters.entry(k).or_default() += n;
    }
    pub fn nontrivial(&mut self, p: &'static str) {
        if !self.nontrivial.contains(&p) {
            self.nontrivial.push(p);
        }
    }
}

// ---------------------------------------------------------------- aggregation
pub struct Agg {
    pub prop: &'static str,
    pub evaluations: u64,
    pub sigs: HashSet<u64>,
    pub cells: BTreeMap<String, u64>,
    pub counters: BTreeMap<String, u64>,
    pub samples: Vec<Value>,
    pub viols: Vec<(Viol, Value, Vec<String>)>,
    /// scenario index of each entry of `viols` (u64::MAX when not re-runnable)
    pub viol_idx: Vec<u64>,
    pub unreproduced: BTreeMap<String, u64>,
    pub cur_index: u64,
    pub other_prop_viols: BTreeMap<String, u64>,
    pub known: BTreeMap<String, u64>,
    pub inconclusive: Vec<String>,
    pub max_samples: usize,
    pub sig_curve: Vec<(u64, u64)>,
}
impl Agg {
    pub fn new(prop: &'static str) -> Agg {
        Agg {
            prop,
            evaluations: 0,
            sigs: HashSet::new(),
            cells: BTreeMap::new(),
            counters: BTreeMap::new(),
            samples: vec![],
            viols: vec![],
            viol_idx: vec![],
            unreproduced: BTreeMap::new(),
            cur_index: u64::MAX,
            other_prop_viols: BTreeMap::new(),
            known: BTreeMap::new(),
            inconclusive: vec![],
            max_samples: 4,
            sig_curve: vec![],
        }
    }
    pub fn add(&mut self, o: Outcome, known: &KnownFindings) {
        self.evaluations += 1;
        if let Some(i) = o.inconclusive {
            if self.inconclusive.len() < 20 {
                self.inconclusive.push(i);
            }
            return;
        }
        let nontrivial = o.nontrivial.contains(&self.prop);
        if nontrivial {
            let new = self.sigs.insert(o.sig);
            if new && self.samples.len() < self.max_samples {
                let mut t = o.trace.clone();
                if t.len() > 60 {
                    t.truncate(60);
                    t.push("...".into());
                }
                self.samples.push(json!({"scenario": o.desc, "trace": t}));
            }
        }
        let cellset: BTreeSet<String> = o.cells.into_iter().collect();
        for c in cellset {
            *self.cells.entry(c).or_default() += 1;
        }
        for (k, v) in o.counters {
            *self.counters.entry(k.to_string()).or_default() += v;
        }
        for v in o.viols {
            if v.prop == self.prop {
                let sig = v.signature();
                if known.is_open(&sig) {
                    *self.known.entry(sig).or_default() += 1;
                } else if self.viols.len() < 50 {
                    self.viols.push((v, o.desc.clone(), o.trace.clone()));
                    self.viol_idx.push(self.cur_index);
                } else {
                    self.viols.push((v, Value::Null, vec![]));
                    self.viol_idx.push(self.cur_index);
                }
            } else {
                *self.other_prop_viols.entry(v.signature()).or_default() += 1;
            }
        }
        if self.evaluations % 10_000 == 0 {
            self.sig_curve.push((self.evaluations, self.sigs.len() as u64));
        }
    }
    pub fn merge(&mut self, other: Agg) {
        self.evaluations += other.evaluations;
        self.sigs.extend(other.sigs);
        for (k, v) in other.cells {
            *self.cells.entry(k).or_default() += v;
        }
        for (k, v) in other.counters {
            *self.counters.entry(k).or_default() += v;
        }
        for s in other.samples {
            if self.samples.len() < self.max_samples * 2 {
                self.samples.push(s);
            }
        }
        self.viols.extend(other.viols);
        self.viol_idx.extend(other.viol_idx);
        for (k, v) in other.unreproduced {
            *self.unreproduced.entry(k).or_default() += v;
        }
        for (k, v) in other.other_prop_viols {
            *self.other_prop_viols.entry(k).or_default() += v;
        }
        for (k, v) in other.known {
            *self.known.entry(k).or_default() += v;
        }
        self.inconclusive.extend(other.inconclusive);
    }
}

/// Runs `n` scenarios (index 0..n) on `threads` worker threads.
pub fn run_parallel<F>(prop: &'static str, n: u64, known: &KnownFindings, f: F) -> Agg
where
    F: Fn(u64) -> Outcome + Sync,
{
    let threads = std::env::var("VERIF_THREADS")
        .ok()
        .and_then(|s| s.parse().ok())
        .unwrap_or_else(|| std::thread::available_parallelism().map(|n| n.get()).unwrap_or(4))
        .max(1);
    let next = AtomicUsize::new(0);
    let total = Mutex::new(Agg::new(prop));
    let stop = AtomicBool::new(false);
    std::thread::scope(|s| {
        for _ in 0..threads {
            s.spawn(|| {
                let mut agg = Agg::new(prop);
                loop {
                    if stop.load(Ordering::Relaxed) {
                        break;
                    }
                    let i = next.fetch_add(1, Ordering::Relaxed) as u64;
                    if i >= n {
                        break;
                    }
                    let o = f(i);
                    agg.cur_index = i;
                    agg.add(o, known);
                    agg.cur_index = u64::MAX;
                    if agg.viols.len() >= 20 {
                        stop.store(true, Ordering::Relaxed);
                    }
                }
                total.lock().unwrap().merge(agg);
            });
        }
    });
    let mut agg = total.into_inner().unwrap();
    // Confirmation: scenarios are replayable from their index, so every reported violation is
    // re-run sequentially; one that cannot be reproduced in three attempts points at harness
    // nondeterminism rather than at tarpc and is recorded as unreproduced, not as a violation.
    if !agg.viols.is_empty() && std::env::var("VERIF_NO_CONFIRM").is_err() {
        let mut keep = vec![];
        let mut keep_idx = vec![];
        let mut verdict: std::collections::HashMap<(u64, String), bool> = std::collections::HashMap::new();
        let viols = std::mem::take(&mut agg.viols);
        let idxs = std::mem::take(&mut agg.viol_idx);
        for ((v, d, t), i) in viols.into_iter().zip(idxs.into_iter()) {
            let ok = if i == u64::MAX || verdict.len() > 40 {
                true
            } else {
                *verdict.entry((i, v.signature())).or_insert_with(|| {
                    (0..3).any(|_| f(i).viols.iter().any(|x| x.prop == v.prop && x.rule == v.rule))
                })
            };
            if ok {
                keep.push((v, d, t));
                keep_idx.push(i);
            } else {
                *agg.unreproduced.entry(v.signature()).or_default() += 1;
            }
        }
        agg.viols = keep;
        agg.viol_idx = keep_idx;
    }
    agg
}

// ---------------------------------------------------------------- known findings
#[derive(Default, Clone)]
pub struct KnownFindings {
    pub open: Vec<(String, String, String)>, // (property, signature, description)
}
impl KnownFindings {
    pub fn load(path: &str) -> KnownFindings {
        let mut k = KnownFindings::default();
        if let Ok(s) = std::fs::read_to_string(path) {
            if let Ok(v) = serde_json::from_str::<Value>(&s) {
                if let Some(a) = v.get("findings").and_then(|x| x.as_array()) {
                    for e in a {
                        if e.get("status").and_then(|x| x.as_str()) == Some("open") {
                            k.open.push((
                                e["property"].as_str().unwrap_or("").to_string(),
                                e["signature"].as_str().unwrap_or("").to_string(),
                                e["description"].as_str().unwrap_or("").to_string(),
                            ));
                        }
                    }
                }
            }
        }
        k
    }
    pub fn is_open(&self, sig: &str) -> bool {
        self.open.iter().any(|(_, s, _)| s == sig)
    }
    pub fn for_prop(&self, p: &str) -> Vec<&(String, String, String)> {
        self.open.iter().filter(|(pp, _, _)| pp == p).collect()
    }
}

// ---------------------------------------------------------------- run context and evidence
pub struct RunCtx {
    pub prop: &'static str,
    pub tier: String,
    pub seed: u64,
    pub started: Instant,
    pub known: KnownFindings,
    pub verif_dir: String,
}
impl RunCtx {
    pub fn thorough(&self) -> bool {
        self.tier == "thorough"
    }
    /// picks a count by tier; can be scaled with VERIF_SCALE (float)
    pub fn n(&self, quick: u64, thorough: u64) -> u64 {
        let base = if self.thorough() { thorough } else { quick };
        let scale: f64 = std::env::var("VERIF_SCALE")
            .ok()
            .and_then(|s| s.parse().ok())
            .unwrap_or(1.0);
        ((base as f64) * scale).max(1.0) as u64
    }
}

pub struct Report {
    pub level: &'static str,
    pub rule: String,
    pub agg: Agg,
    pub extra: BTreeMap<String, Value>,
    pub assumptions: Vec<String>,
    pub required_cells: Vec<String>,
    pub exhaustive: Option<bool>,
}

/// Writes evidence, prints VIOLATION / KNOWN-FINDING lines, returns the process exit code.
pub fn finish(ctx: &RunCtx, rep: Report) -> i32 {
    let name = ctx.prop.to_string();
    finish_named(ctx, rep, &name)
}
pub fn finish_named(ctx: &RunCtx, rep: Report, file_stem: &str) -> i32 {
    let agg = rep.agg;
    let wall = ctx.started.elapsed().as_secs_f64();
    let mut inconclusive: Vec<String> = agg.inconclusive.clone();
    for c in &rep.required_cells {
        if agg.cells.get(c).copied().unwrap_or(0) == 0 {
            inconclusive.push(format!("required coverage cell not reached: {c}"));
        }
    }
    let distinct = agg.sigs.len() as u64;
    if distinct < 2 {
        inconclusive.push(format!(
            "only {distinct} distinct non-trivial behaviours observed"
        ));
    }
    // replay files for violations
    let mut replay_paths = vec![];
    let mut seen_rules = BTreeSet::new();
    for (i, (v, desc, trace)) in agg.viols.iter().enumerate() {
        if desc.is_null() {
            continue;
        }
        if !seen_rules.insert(v.signature()) && replay_paths.len() >= 5 {
            continue;
        }
        let path = format!(
            "{}/replays/{}-{}-{}.json",
            ctx.verif_dir, ctx.prop, ctx.seed, i
        );
        let body = json!({
            "property": ctx.prop,
            "signature": v.signature(),
            "message": v.msg,
            "scenario": desc,
            "witness_trace": trace,
        });
        let _ = std::fs::create_dir_all(format!("{}/replays", ctx.verif_dir));
        let _ = std::fs::write(&path, serde_json::to_string_pretty(&body).unwrap());
        replay_paths.push((v.signature(), v.msg.clone(), path));
        if replay_paths.len() >= 12 {
            break;
        }
    }
    let mut coverage = serde_json::Map::new();
    coverage.insert("evaluations".into(), json!(agg.evaluations));
    coverage.insert("distinct_nontrivial".into(), json!(distinct));
    coverage.insert("rule".into(), json!(rep.rule));
    coverage.insert("samples".into(), Value::Array(agg.samples.clone()));
    coverage.insert("cells".into(), json!(agg.cells));
    coverage.insert("observed_events".into(), json!(agg.counters));
    if let Some(e) = rep.exhaustive {
        coverage.insert("exhaustive".into(), json!(e));
    }
    if !agg.sig_curve.is_empty() {
        coverage.insert("distinct_signature_curve".into(), json!(agg.sig_curve));
    }
    if !agg.other_prop_viols.is_empty() {
        coverage.insert(
            "violations_of_other_properties_seen".into(),
            json!(agg.other_prop_viols),
        );
    }
    if !agg.known.is_empty() {
        coverage.insert("known_findings_matched".into(), json!(agg.known));
    }
    if !agg.unreproduced.is_empty() {
        coverage.insert("unreproduced_observations".into(), json!(agg.unreproduced));
    }
    if !inconclusive.is_empty() {
        coverage.insert("inconclusive".into(), json!(inconclusive));
    }
    if !replay_paths.is_empty() {
        coverage.insert(
            "violation_witnesses".into(),
            json!(replay_paths
                .iter()
                .map(|(s, m, p)| json!({"signature": s, "message": m, "replay": p}))
                .collect::<Vec<_>>()),
        );
    }
    for (k, v) in rep.extra {
        coverage.insert(k, v);
    }
    let ev = json!({
        "property_id": ctx.prop,
        "tier": ctx.tier,
        "seed": ctx.seed,
        "level": rep.level,
        "coverage": Value::Object(coverage),
        "assumptions": rep.assumptions,
        "wall_s": (wall * 1000.0).round() / 1000.0,
        "violations": agg.viols.len(),
    });
    let evdir = format!("{}/evidence", ctx.verif_dir);
    let _ = std::fs::create_dir_all(&evdir);
    let tmp = format!("{}/{}.json.tmp", evdir, file_stem);
    let fin = format!("{}/{}.json", evdir, file_stem);
    std::fs::write(&tmp, serde_json::to_string_pretty(&ev).unwrap()).expect("write evidence");
    std::fs::rename(&tmp, &fin).expect("rename evidence");

    // one line per listed open finding of this property (observed or not in this run)
    for (_, sig, d) in ctx.known.for_prop(ctx.prop) {
        let n = agg.known.get(sig).copied().unwrap_or(0);
        println!(
            "KNOWN-FINDING: property={} signature={} observed_in_this_run={} {}",
            ctx.prop, sig, n, d
        );
    }
    println!(
        "[{}] tier={} seed={} evaluations={} distinct_nontrivial={} violations={} wall={:.1}s",
        ctx.prop,
        ctx.tier,
        ctx.seed,
        agg.evaluations,
        distinct,
        agg.viols.len(),
        wall
    );
    if !agg.viols.is_empty() {
        let mut printed = BTreeSet::new();
        for (sig, msg, path) in &replay_paths {
            if printed.insert(sig.clone()) {
                println!("  {sig}: {msg}");
                println!("VIOLATION property={} replay={}", ctx.prop, path);
            }
        }
        if replay_paths.is_empty() {
            println!("VIOLATION property={} replay=none", ctx.prop);
        }
        return 1;
    }
    if !inconclusive.is_empty() {
        for i in &inconclusive {
            println!("INCONCLUSIVE: {i}");
        }
        return 3;
    }
    0
}

pub fn ms(d: std::time::Duration) -> u64 {
    d.as_millis() as u64
}

/// Polls once *without tokio's cooperative-scheduling budget*. The scenario schedulers poll many
/// tasks by hand inside one poll of the runtime's `block_on` future; tokio charges all of their
/// channel/timer operations to that single budget of 128, after which every tokio resource returns
/// `Pending` with a wake-up deferred until the runtime is next parked - which would make tasks look
/// idle (and "woken by the clock advance") although they have work. Unconstrained polls restore the
/// semantics each task would have as a task of its own.
pub fn poll_unconstrained<T>(
    cx: &mut std::task::Context<'_>,
    f: impl FnMut(&mut std::task::Context<'_>) -> std::task::Poll<T>,
) -> std::task::Poll<T> {
    use std::future::Future;
    let mut u = tokio::task::unconstrained(futures::future::poll_fn(f));
    std::pin::Pin::new(&mut u).poll(cx)
}
