//! tarpc-verif <PROPERTY> <quick|thorough> [--replay <file>]
mod codec;
mod common;
mod e2e;
mod gen;
mod misc;
mod mock;
mod props;
mod sclient;
mod sserver;
mod threads;

use common::*;
use std::time::Instant;

fn main() {
    // keep stderr clean: panics inside polled tasks are caught and reported by the monitors
    if std::env::var("VERIF_PANIC_VERBOSE").is_err() {
        std::panic::set_hook(Box::new(|_| {}));
    }
    let args: Vec<String> = std::env::args().collect();
    if args.len() < 3 {
        eprintln!("usage: tarpc-verif <C01..C20> <quick|thorough> | tarpc-verif <ID> --replay <file>");
        std::process::exit(2);
    }
    let prop: &'static str = Box::leak(args[1].clone().into_boxed_str());
    let verif_dir = std::env::var("VERIF_DIR").unwrap_or_else(|_| "/verif".into());
    let known = KnownFindings::load(&format!("{verif_dir}/known_findings.json"));
    let seed: u64 = std::env::var("VERIF_SEED")
        .ok()
        .and_then(|s| s.parse::<i64>().ok())
        .map(|x| x as u64)
        .unwrap_or(0);
    if args[2] == "--replay" {
        let path = args.get(3).expect("replay file");
        std::process::exit(props::replay(prop, path));
    }
    let tier = std::env::var("VERIF_TIER")
        .ok()
        .filter(|t| t == "quick" || t == "thorough")
        .unwrap_or_else(|| args[2].clone());
    let ctx = RunCtx {
        prop,
        tier,
        seed,
        started: Instant::now(),
        known,
        verif_dir,
    };
    let code = props::run(&ctx);
    std::process::exit(code);
}
