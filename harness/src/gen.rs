//! S-gen: seeded generator of `#[tarpc::service]` programs (C17). The generated crate lives in
//! /verif/gencrate (sources under src/bin are generated, gitignored); it is compiled against the
//! current /repo tree and run; the drivers compare what the implementor observed with what the
//! client passed.
use crate::common::*;
use serde_json::{json, Value};
use std::fmt::Write as _;

#[derive(Clone, Copy, Debug, PartialEq)]
pub enum Ty {
    U8,
    U32,
    I64,
    Str,
    Bool,
    Tup,
    VecU32,
    OptU32,
    Unit,
    /// a tarpc Context passed as an ordinary argument (e.g. a relay forwarding its caller's context)
    Ctx,
}
impl Ty {
    pub fn rust(self) -> &'static str {
        match self {
            Ty::U8 => "u8",
            Ty::U32 => "u32",
            Ty::I64 => "i64",
            Ty::Str => "String",
            Ty::Bool => "bool",
            Ty::Tup => "(u32, String)",
            Ty::VecU32 => "Vec<u32>",
            Ty::OptU32 => "Option<u32>",
            Ty::Unit => "()",
            Ty::Ctx => "tarpc::context::Context",
        }
    }
    pub fn val_fn(self) -> &'static str {
        match self {
            Ty::U8 => "v_u8",
            Ty::U32 => "v_u32",
            Ty::I64 => "v_i64",
            Ty::Str => "v_str",
            Ty::Bool => "v_bool",
            Ty::Tup => "v_tup",
            Ty::VecU32 => "v_vec",
            Ty::OptU32 => "v_opt",
            Ty::Unit => "v_unit",
            Ty::Ctx => "v_ctx",
        }
    }
}
const ARG_TYS: [Ty; 8] = [Ty::U8, Ty::U32, Ty::I64, Ty::Str, Ty::Bool, Ty::Tup, Ty::VecU32, Ty::OptU32];

#[derive(Clone, Debug)]
pub struct Method {
    pub name: String,
    pub args: Vec<(String, Ty)>,
    /// None: no `-> T` at all
    pub ret: Option<Ty>,
    pub attrs: Vec<&'static str>,
    pub enabled: bool,
}
#[derive(Clone, Debug)]
pub struct Service {
    pub name: String,
    pub methods: Vec<Method>,
    pub derive: &'static str,
    pub features: Vec<String>,
}

fn unraw(s: &str) -> &str {
    s.strip_prefix("r#").unwrap_or(s)
}

/// mirrors the macro's variant naming only to keep *generated positives* free of collisions
fn camel(s: &str) -> String {
    let mut out = String::new();
    let mut up = true;
    for c in unraw(s).chars() {
        if c == '_' {
            up = true;
        } else if up {
            out.extend(c.to_uppercase());
            up = false;
        } else {
            out.extend(c.to_lowercase());
        }
    }
    out
}

const METHOD_NAMES: [&str; 40] = [
    "add", "get_value", "fooBar", "foo_bar", "_lead", "trail_", "dbl__under", "X", "m2", "a1_b2", "hello", "put", "list_all", "r#fn", "r#await", "r#async", "r#match", "r#type", "Mixed_Case_name", "z", "compute", "ping", "set_flag", "from", "clone",
    "call", "into", "default", "len", "is_empty", "to_string", "iter", "next", "map", "get", "insert", "remove", "UPPER", "lower9", "x_",
];
const ARG_NAMES: [&str; 22] = ["a", "b", "c", "value", "x1", "context", "request", "req", "resp", "msg", "self_", "stub", "r#type", "r#match", "r#struct", "r#enum", "n", "key", "_under", "trail_", "camelArg", "id"];
const SERVICE_NAMES: [&str; 12] = ["Calc", "Store", "r#trait", "World", "Ping_Pong", "svc2", "X", "KeyValue", "r#type", "Echo", "lowercase", "With_Under_"];
const DERIVES: [&str; 5] = ["", "", "(derive = [Clone, PartialEq])", "(derive_serde = true)", "(derive_serde = false)"];

pub fn gen_service(r: &mut Rng, idx: usize) -> Service {
    let mut features = vec![];
    let base = *r.pick(&SERVICE_NAMES);
    // the module isolates each service, so names may repeat across services
    let name = base.to_string();
    if base.starts_with("r#") {
        features.push("raw-service-ident".into());
    }
    let nm = match r.below(10) {
        0 => 1,
        1 => 12,
        _ => 1 + r.below(8),
    };
    features.push(format!("methods{}", if nm >= 9 { "9+".to_string() } else { nm.to_string() }));
    let mut methods: Vec<Method> = vec![];
    let mut used_camel: Vec<String> = vec![];
    let mut tries = 0;
    while methods.len() < nm && tries < 200 {
        tries += 1;
        let mn = *r.pick(&METHOD_NAMES);
        let cm = camel(mn);
        if used_camel.contains(&cm) || methods.iter().any(|m| unraw(&m.name) == unraw(mn)) {
            continue;
        }
        used_camel.push(cm);
        let arity = match r.below(8) {
            0 => 0,
            1 => 6,
            _ => r.below(5),
        };
        let same_types = r.chance(1, 3);
        let t0 = *r.pick(&ARG_TYS);
        let mut args: Vec<(String, Ty)> = vec![];
        let mut at = 0;
        while args.len() < arity && at < 100 {
            at += 1;
            let an = *r.pick(&ARG_NAMES);
            if args.iter().any(|(n, _)| unraw(n) == unraw(an)) {
                continue;
            }
            let ty = if an == "context" && r.chance(1, 2) { Ty::Ctx } else if same_types { t0 } else { *r.pick(&ARG_TYS) };
            args.push((an.to_string(), ty));
        }
        let ret = match r.below(6) {
            0 => None,
            1 => Some(Ty::Unit),
            _ => Some(*r.pick(&ARG_TYS)),
        };
        let mut attrs = vec![];
        let mut enabled = true;
        match r.below(10) {
            0 => attrs.push("#[doc = \"documented rpc\"]"),
            1 => attrs.push("#[cfg(all())]"),
            2 => {
                attrs.push("#[cfg(any())]");
                enabled = false;
            }
            3 => attrs.push("#[deny(unused_variables)]"),
            4 => {
                attrs.push("#[doc = \"x\"]");
                attrs.push("#[allow(non_snake_case)]");
            }
            _ => {}
        }
        if mn.starts_with("r#") {
            features.push("raw-method-ident".into());
        }
        if mn.contains("__") || mn.starts_with('_') || mn.ends_with('_') {
            features.push("underscores".into());
        }
        if mn.chars().any(|c| c.is_uppercase()) {
            features.push("mixed-case".into());
        }
        if ["from", "clone", "call", "into", "default"].contains(&mn) {
            features.push("std-method-name".into());
        }
        if arity >= 2 && same_types {
            features.push("same-typed-args".into());
        }
        if arity == 0 {
            features.push("arity0".into());
        }
        if arity == 6 {
            features.push("arity6".into());
        }
        if args.iter().any(|(_, t)| *t == Ty::Ctx) {
            features.push("context-typed-arg".into());
        }
        if args.iter().any(|(n, _)| n.starts_with("r#")) {
            features.push("raw-arg-ident".into());
        }
        if args.iter().any(|(n, _)| ["context", "request", "req", "resp", "msg", "stub", "self_"].contains(&n.as_str())) {
            features.push("arg-named-like-generated-local".into());
        }
        if !enabled {
            features.push("cfg-disabled-method".into());
        }
        if !attrs.is_empty() {
            features.push("method-attrs".into());
        }
        match ret {
            None => features.push("ret-default".into()),
            Some(Ty::Unit) => features.push("ret-unit".into()),
            Some(Ty::Tup) => features.push("ret-tuple".into()),
            Some(Ty::VecU32) | Some(Ty::OptU32) => features.push("ret-generic".into()),
            _ => {}
        }
        methods.push(Method { name: mn.to_string(), args, ret, attrs, enabled });
    }
    // sibling methods with identical signatures are the point: duplicate one signature
    if methods.len() >= 2 && r.chance(1, 2) {
        let sig = (methods[0].args.clone(), methods[0].ret);
        let k = 1 + r.below(methods.len() - 1);
        methods[k].args = sig.0;
        methods[k].ret = sig.1;
        features.push("same-signature-siblings".into());
    }
    if methods.iter().all(|m| !m.enabled) {
        methods[0].enabled = true;
        methods[0].attrs.retain(|a| *a != "#[cfg(any())]");
    }
    let mut derive = *r.pick(&DERIVES);
    if derive.contains("PartialEq") && methods.iter().any(|m| m.args.iter().any(|(_, t)| *t == Ty::Ctx)) {
        derive = "(derive = [Clone])"; // Context is not PartialEq
    }
    if !derive.is_empty() {
        features.push(format!("derive:{}", derive.trim_matches(|c| c == '(' || c == ')').split('=').next().unwrap_or("").trim()));
    }
    features.sort();
    features.dedup();
    let _ = idx;
    Service { name, methods, derive, features }
}

pub fn prelude() -> String {
    r#"#![allow(non_camel_case_types, non_snake_case, unused, dead_code, deprecated, non_upper_case_globals)]
use futures::StreamExt;
use std::sync::atomic::{AtomicU64, Ordering};
use std::sync::{Arc, Mutex};
use std::time::{Duration, Instant};
use tarpc::server::Channel as _;

#[derive(Clone, Debug, PartialEq)]
pub struct Obs {
    pub service: &'static str,
    pub method: &'static str,
    pub args: String,
    pub deadline: Instant,
    pub trace: u128,
    pub inv: u64,
}
pub static LOG: Mutex<Vec<Obs>> = Mutex::new(Vec::new());
pub static INV: AtomicU64 = AtomicU64::new(1);
pub static CHECKS: AtomicU64 = AtomicU64::new(0);
pub static MISMATCHES: Mutex<Vec<String>> = Mutex::new(Vec::new());
pub fn v_u8(c: u64) -> u8 { (c % 251) as u8 }
pub fn v_u32(c: u64) -> u32 { (c as u32).wrapping_mul(2654435761) }
pub fn v_i64(c: u64) -> i64 { -(c as i64) * 1_000_003 }
pub fn v_str(c: u64) -> String { format!("s{}", c) }
pub fn v_bool(c: u64) -> bool { c % 2 == 0 }
pub fn v_tup(c: u64) -> (u32, String) { ((c as u32) ^ 0xABCD, format!("t{}", c)) }
pub fn v_vec(c: u64) -> Vec<u32> { vec![c as u32, (c + 1) as u32] }
pub fn v_opt(c: u64) -> Option<u32> { if c % 3 == 0 { None } else { Some(c as u32) } }
pub fn v_unit(_c: u64) {}
pub fn v_ctx(c: u64) -> tarpc::context::Context { mk_ctx(900_000 + c) }
pub fn observe(service: &'static str, method: &'static str, args: String, ctx: &tarpc::context::Context) -> u64 {
    let inv = INV.fetch_add(1, Ordering::SeqCst);
    LOG.lock().unwrap().push(Obs { service, method, args, deadline: ctx.deadline, trace: u128::from(ctx.trace_context.trace_id), inv });
    inv
}
pub fn mismatch(s: String) { MISMATCHES.lock().unwrap().push(s); }
/// records the reported request name, then forwards
#[derive(Clone)]
pub struct Spy<S>(pub S, pub Arc<Mutex<Vec<String>>>);
impl<S> tarpc::client::stub::Stub for Spy<S>
where
    S: tarpc::client::stub::Stub,
{
    type Req = S::Req;
    type Resp = S::Resp;
    async fn call(&self, ctx: tarpc::context::Context, req: S::Req) -> Result<S::Resp, tarpc::client::RpcError> {
        use tarpc::RequestName;
        self.1.lock().unwrap().push(req.name().to_string());
        self.0.call(ctx, req).await
    }
}
pub fn mk_ctx(k: u64) -> tarpc::context::Context {
    let mut ctx = tarpc::context::current();
    ctx.deadline = Instant::now() + Duration::from_secs(3600 + k);
    ctx.trace_context.trace_id = tarpc::trace::TraceId::from(0xC17_0000_0000u128 + k as u128);
    ctx
}
"#
    .to_string()
}

/// emits `mod s<idx> { ... }` with the service, an implementor and a driver `run()`
pub fn emit_service(s: &Service, idx: usize, out: &mut String) {
    let sname = &s.name;
    let sun = unraw(sname);
    let _ = writeln!(out, "pub mod s{idx} {{\n    use super::*;");
    let _ = writeln!(out, "    #[tarpc::service{}]\n    pub trait {sname} {{", s.derive);
    for m in &s.methods {
        for a in &m.attrs {
            let _ = writeln!(out, "        {a}");
        }
        let args: Vec<String> = m.args.iter().map(|(n, t)| format!("{n}: {}", t.rust())).collect();
        let ret = match m.ret {
            None => String::new(),
            Some(t) => format!(" -> {}", t.rust()),
        };
        let _ = writeln!(out, "        async fn {}({}){};", m.name, args.join(", "), ret);
    }
    let _ = writeln!(out, "    }}\n    #[derive(Clone)]\n    pub struct Impl;\n    impl {sname} for Impl {{");
    for (mi, m) in s.methods.iter().enumerate() {
        if !m.enabled {
            continue;
        }
        let args: Vec<String> = m.args.iter().map(|(n, t)| format!("{n}: {}", t.rust())).collect();
        let rt = m.ret.unwrap_or(Ty::Unit);
        let ret = match m.ret {
            None => String::new(),
            Some(t) => format!(" -> {}", t.rust()),
        };
        let dbg: Vec<String> = m.args.iter().map(|(n, _)| format!("&{n}")).collect();
        let _ = writeln!(
            out,
            "        async fn {}(self, verif_cx: tarpc::context::Context{}{}){} {{\n            let inv = observe({sun:?}, {:?}, format!(\"{{:?}}\", ({}{})), &verif_cx);\n            {}(inv * 131 + {mi})\n        }}",
            m.name,
            if args.is_empty() { "" } else { ", " },
            args.join(", "),
            ret,
            unraw(&m.name),
            dbg.join(", "),
            if dbg.len() == 1 { "," } else { "" },
            rt.val_fn()
        );
    }
    let _ = writeln!(out, "    }}");
    // driver
    let client_ty = format!("{sun}Client");
    let _ = writeln!(out, "    pub async fn run() {{");
    // every other service whose request/response types are serializable travels over the serde
    // transport (bincode / JSON over an in-process byte pipe) instead of the in-memory channel
    // (not those with a Context-typed argument: a serialized Context legitimately comes out with a
    // slightly different deadline, so "same arguments" would need a looser comparison)
    let has_ctx_arg = s.methods.iter().any(|m| m.args.iter().any(|(_, t)| *t == Ty::Ctx));
    let over_wire = idx % 2 == 1 && !has_ctx_arg && !s.derive.contains("derive_serde = false") && !s.derive.contains("derive = [");
    if over_wire {
        let codec = if idx % 4 == 1 { "Bincode" } else { "Json" };
        let _ = writeln!(out, "        let (cio, sio) = tokio::io::duplex(64);");
        let _ = writeln!(out, "        let ct = tarpc::serde_transport::Transport::from((cio, tarpc::tokio_serde::formats::{codec}::default()));");
        let _ = writeln!(out, "        let st = tarpc::serde_transport::Transport::from((sio, tarpc::tokio_serde::formats::{codec}::default()));");
    } else {
        let _ = writeln!(out, "        let (ct, st) = tarpc::transport::channel::unbounded();");
    }
    let _ = writeln!(out, "        tokio::spawn(tarpc::server::BaseChannel::with_defaults(st).execute({sname}::serve(Impl)).for_each(|f| async move {{ tokio::spawn(f); }}));");
    let _ = writeln!(out, "        let client = {client_ty}::new(tarpc::client::Config::default(), ct).spawn();");
    let _ = writeln!(out, "        let names = Arc::new(Mutex::new(Vec::<String>::new()));");
    let _ = writeln!(out, "        let direct = <{client_ty}<_> as ::core::convert::From<_>>::from(Spy({sname}::serve(Impl), names.clone()));");
    let _ = writeln!(out, "        let mut k: u64 = {};", 1000 * (idx as u64 + 1));
    for (mi, m) in s.methods.iter().enumerate() {
        if !m.enabled {
            continue;
        }
        let rt = m.ret.unwrap_or(Ty::Unit);
        for path in ["client", "direct"] {
            let _ = writeln!(out, "        {{");
            let _ = writeln!(out, "            k += 10;");
            let mut vals = vec![];
            for (ai, (_, t)) in m.args.iter().enumerate() {
                let _ = writeln!(out, "            let a{ai}: {} = {}(k + {ai});", t.rust(), t.val_fn());
                vals.push(format!("a{ai}"));
            }
            let want_args = format!("format!(\"{{:?}}\", ({}{}))", vals.iter().map(|v| format!("&{v}")).collect::<Vec<_>>().join(", "), if vals.len() == 1 { "," } else { "" });
            let _ = writeln!(out, "            let want_args = {want_args};");
            let _ = writeln!(out, "            let ctx = mk_ctx(k);");
            let _ = writeln!(out, "            let before = LOG.lock().unwrap().len();");
            let call_args = vals.iter().map(|v| format!("{v}.clone()")).collect::<Vec<_>>().join(", ");
            // fully qualified: a method named like a std trait method (into, clone, ...) must reach the rpc
            let _ = writeln!(out, "            let got = {client_ty}::<_>::{}(&{path}, ctx{}{}).await;", m.name, if vals.is_empty() { "" } else { ", " }, call_args);
            let _ = writeln!(out, "            CHECKS.fetch_add(1, Ordering::SeqCst);");
            let _ = writeln!(out, "            let log: Vec<Obs> = LOG.lock().unwrap()[before..].to_vec();");
            let tag = format!("{sun}.{} via {path}", unraw(&m.name));
            let _ = writeln!(out, "            if log.len() != 1 {{ mismatch(format!(\"{tag}: {{}} implementor invocations observed instead of 1: {{:?}}\", log.len(), log)); }} else {{");
            let _ = writeln!(out, "                let o = &log[0];");
            let _ = writeln!(out, "                if o.service != {sun:?} || o.method != {:?} {{ mismatch(format!(\"{tag}: routed to {{}}.{{}}\", o.service, o.method)); }}", unraw(&m.name));
            let _ = writeln!(out, "                if o.args != want_args {{ mismatch(format!(\"{tag}: implementor saw arguments {{}} but the client passed {{}}\", o.args, want_args)); }}");
            if over_wire && path == "client" {
                // a serializing transport carries the remaining time: never earlier, later by at most the transit time
                let _ = writeln!(out, "                if o.deadline < ctx.deadline || o.deadline > ctx.deadline + std::time::Duration::from_secs(300) || o.trace != u128::from(ctx.trace_context.trace_id) {{ mismatch(format!(\"{tag}: implementor saw a different context (trace {{:x}} vs {{:x}}, deadline off by {{:?}})\", o.trace, u128::from(ctx.trace_context.trace_id), o.deadline.saturating_duration_since(ctx.deadline))); }}");
            } else {
                let _ = writeln!(out, "                if o.deadline != ctx.deadline || o.trace != u128::from(ctx.trace_context.trace_id) {{ mismatch(format!(\"{tag}: implementor saw a different context\")); }}");
            }
            let _ = writeln!(out, "                let want: {} = {}(o.inv * 131 + {mi});", rt.rust(), rt.val_fn());
            let _ = writeln!(out, "                match &got {{ Ok(v) if *v == want => {{}} other => mismatch(format!(\"{tag}: caller received {{:?}} but that invocation returned {{:?}}\", other.as_ref().map_err(|e| e.to_string()), want)) }}");
            let _ = writeln!(out, "            }}");
            if path == "direct" {
                let _ = writeln!(out, "            let nm = names.lock().unwrap().last().cloned().unwrap_or_default();");
                let _ = writeln!(out, "            let nm_stripped = nm.replace(\"r#\", \"\");");
                let _ = writeln!(out, "            if nm_stripped != {:?} {{ mismatch(format!(\"{tag}: RequestName::name() is {{:?}}, expected {}\", nm)); }}", format!("{sun}.{}", unraw(&m.name)), format!("{sun}.{}", unraw(&m.name)));
            }
            let _ = writeln!(out, "        }}");
        }
    }
    let _ = writeln!(out, "    }}\n}}");
}

pub fn emit_main(n: usize, first: usize, out: &mut String) {
    let _ = writeln!(out, "#[tokio::main(flavor = \"current_thread\")]\nasync fn main() {{");
    for i in first..first + n {
        let _ = writeln!(out, "    s{i}::run().await;");
    }
    let _ = writeln!(out, "    let mm = MISMATCHES.lock().unwrap();");
    let _ = writeln!(out, "    println!(\"CHECKS {{}}\", CHECKS.load(Ordering::SeqCst));");
    let _ = writeln!(out, "    for m in mm.iter() {{ println!(\"MISMATCH {{}}\", m); }}");
    let _ = writeln!(out, "    println!(\"DONE\");\n}}");
}

/// Negative programs: each must be rejected at compile time.
pub fn negatives() -> Vec<(&'static str, String)> {
    let wrap = |body: &str, imp: &str| -> String {
        let mut s = prelude();
        s.push_str(&format!(
            "pub mod neg {{\n    use super::*;\n    #[tarpc::service]\n    pub trait Neg {{\n{body}\n    }}\n    #[derive(Clone)]\n    pub struct Impl;\n    impl Neg for Impl {{\n{imp}\n    }}\n}}\nfn main() {{}}\n"
        ));
        s
    };
    vec![
        ("method-new", wrap("        async fn new(a: u32) -> u32;", "        async fn new(self, _: tarpc::context::Context, a: u32) -> u32 { a }")),
        ("method-serve", wrap("        async fn serve(a: u32) -> u32;", "        async fn serve(self, _: tarpc::context::Context, a: u32) -> u32 { a }")),
        ("method-raw-new", wrap("        async fn r#new(a: u32) -> u32;", "        async fn r#new(self, _: tarpc::context::Context, a: u32) -> u32 { a }")),
        ("camel-collision-double-underscore", wrap("        async fn foo_bar(a: u32) -> u32;\n        async fn foo__bar(a: u32) -> u32;", "        async fn foo_bar(self, _: tarpc::context::Context, a: u32) -> u32 { a }\n        async fn foo__bar(self, _: tarpc::context::Context, a: u32) -> u32 { a + 1 }")),
        ("camel-collision-case", wrap("        async fn foo_bar(a: u32) -> u32;\n        async fn foo_Bar(a: u32) -> u32;", "        async fn foo_bar(self, _: tarpc::context::Context, a: u32) -> u32 { a }\n        async fn foo_Bar(self, _: tarpc::context::Context, a: u32) -> u32 { a + 1 }")),
        ("arg-named-ctx", wrap("        async fn m(ctx: u32) -> u32;", "        async fn m(self, _: tarpc::context::Context, ctx: u32) -> u32 { ctx }")),
        ("duplicate-arg-names", wrap("        async fn m(a: u32, a: u32) -> u32;", "        async fn m(self, _: tarpc::context::Context, a: u32, b: u32) -> u32 { a }")),
        ("self-receiver", wrap("        async fn m(&self, a: u32) -> u32;", "        async fn m(self, _: tarpc::context::Context, a: u32) -> u32 { a }")),
        ("destructuring-pattern", wrap("        async fn m((a, b): (u32, u32)) -> u32;", "        async fn m(self, _: tarpc::context::Context, p: (u32, u32)) -> u32 { p.0 }")),
        ("method-underscore", wrap("        async fn _(a: u32) -> u32;", "")),
    ]
}

pub const GENCRATE_TOML: &str = r#"[package]
name = "tarpc-verif-gen"
version = "0.0.0"
edition = "2021"
publish = false

[workspace]

[dependencies]
tarpc = { path = "/repo/tarpc", features = ["full"] }
tokio = { version = "1", features = ["full"] }
futures = "0.3"
serde = { version = "1", features = ["derive"] }

[profile.dev]
debug = 0
opt-level = 0
incremental = false
"#;

fn watchdog_secs() -> u64 {
    std::env::var("VERIF_GEN_WATCHDOG_SECS").ok().and_then(|v| v.parse().ok()).unwrap_or(300)
}

/// runs a generated program with its output in files (no pipe to fill up) under a generous
/// wall-clock watchdog; `Ok(None)` = killed by the watchdog
fn run_with_watchdog(exe: &str, outbase: &str) -> std::io::Result<Option<(Option<i32>, String, String)>> {
    let (outp, errp) = (format!("{outbase}.stdout"), format!("{outbase}.stderr"));
    let mut child = std::process::Command::new(exe)
        .stdin(std::process::Stdio::null())
        .stdout(std::fs::File::create(&outp)?)
        .stderr(std::fs::File::create(&errp)?)
        .spawn()?;
    let started = std::time::Instant::now();
    let status = loop {
        match child.try_wait()? {
            Some(st) => break Some(st),
            None if started.elapsed() > std::time::Duration::from_secs(watchdog_secs()) => {
                let _ = child.kill();
                let _ = child.wait();
                break None;
            }
            None => std::thread::sleep(std::time::Duration::from_millis(20)),
        }
    };
    let r = status.map(|st| (st.code(), std::fs::read_to_string(&outp).unwrap_or_default(), std::fs::read_to_string(&errp).unwrap_or_default()));
    let _ = std::fs::remove_file(&outp);
    let _ = std::fs::remove_file(&errp);
    Ok(r)
}

pub struct GenResult {
    pub outcomes: Vec<Outcome>,
    pub inconclusive: Option<String>,
}

/// generates, compiles and runs `n` services in `shards` binaries; returns one Outcome per service
pub fn run_positive(verif_dir: &str, seed: u64, n: usize, shards: usize) -> GenResult {
    let dir = format!("{verif_dir}/gencrate");
    let bindir = format!("{dir}/src/bin");
    let _ = std::fs::remove_dir_all(&bindir);
    std::fs::create_dir_all(&bindir).expect("create gencrate/src/bin");
    // VERIF_REPO lets calibration runs point the generated crate at a scratch copy of the repository
    let repo = std::env::var("VERIF_REPO").unwrap_or_else(|_| "/repo".into());
    std::fs::write(format!("{dir}/Cargo.toml"), GENCRATE_TOML.replace("/repo/tarpc", &format!("{repo}/tarpc"))).expect("write Cargo.toml");
    let _ = std::fs::create_dir_all(format!("{dir}/.cargo"));
    let _ = std::fs::write(format!("{dir}/.cargo/config.toml"), "[net]\noffline = true\n");
    let _ = std::fs::copy("/repo/Cargo.lock", format!("{dir}/Cargo.lock"));
    let mut services: Vec<Service> = vec![];
    let per = n.div_ceil(shards);
    for sh in 0..shards {
        let mut src = prelude();
        let first = sh * per;
        let cnt = per.min(n.saturating_sub(first));
        for i in first..first + cnt {
            let mut r = Rng::new(mix(seed, i as u64 ^ 0xC17));
            let s = gen_service(&mut r, i);
            emit_service(&s, i, &mut src);
            services.push(s);
        }
        emit_main(cnt, first, &mut src);
        std::fs::write(format!("{bindir}/pos_{sh}.rs"), src).expect("write generated program");
    }
    for (name, src) in negatives() {
        std::fs::write(format!("{bindir}/neg_{}.rs", name.replace('-', "_")), src).expect("write negative program");
    }
    // build all positive shards at once
    let mut cmd = std::process::Command::new("cargo");
    cmd.current_dir(&dir).arg("build").arg("--offline");
    for sh in 0..shards {
        cmd.arg("--bin").arg(format!("pos_{sh}"));
    }
    let b = cmd.output();
    let b = match b {
        Ok(b) => b,
        Err(e) => return GenResult { outcomes: vec![], inconclusive: Some(format!("cargo could not be started: {e}")) },
    };
    if !b.status.success() {
        let err = String::from_utf8_lossy(&b.stderr);
        let tail: Vec<&str> = err.lines().filter(|l| l.starts_with("error") || l.contains("-->")).take(12).collect();
        // a generated positive program that does not compile: the macro rejected (or miscompiled
        // into invalid code) a definition of a kind it is documented to accept
        let mut o = Outcome::default();
        o.desc = json!({"family": "S-gen", "case": "positive programs failed to compile", "seed": seed});
        o.viol("C17", "accepted-shape-does-not-compile", format!("generated service definitions of supported shapes no longer compile: {}", tail.join(" | ")));
        o.nontrivial("C17");
        o.trace = err.lines().filter(|l| l.starts_with("error") || l.contains("-->")).take(40).map(String::from).collect();
        return GenResult { outcomes: vec![o], inconclusive: None };
    }
    let mut mismatches: Vec<String> = vec![];
    let mut checks = 0u64;
    for sh in 0..shards {
        let run = run_with_watchdog(&format!("{dir}/target/debug/pos_{sh}"), &format!("{dir}/target/debug/pos_{sh}"));
        match run {
            Err(e) => return GenResult { outcomes: vec![], inconclusive: Some(format!("generated program could not be run: {e}")) },
            // a wall-clock watchdog is never a verdict: a generated program runs for milliseconds, one that is
            // still running after minutes hangs in a call (its deadlines are an hour away) or the machine is
            // overloaded; either way nothing was observed about routing
            Ok(None) => return GenResult { outcomes: vec![], inconclusive: Some(format!("generated program pos_{sh} did not finish within {} s of real time (watchdog; killed): no verdict on its services", watchdog_secs())) },
            Ok(Some((code, stdout, stderr))) => {
                let out = stdout;
                if !out.contains("DONE") {
                    mismatches.push(format!("shard {sh}: the generated driver did not finish (status {:?}): {}", code, stderr.lines().last().unwrap_or("")));
                }
                for l in out.lines() {
                    if let Some(m) = l.strip_prefix("MISMATCH ") {
                        mismatches.push(m.to_string());
                    }
                    if let Some(c) = l.strip_prefix("CHECKS ") {
                        checks += c.trim().parse::<u64>().unwrap_or(0);
                    }
                }
            }
        }
    }
    let mut outcomes = vec![];
    for (i, s) in services.iter().enumerate() {
        let mut o = Outcome::default();
        let shape: Vec<String> = s.methods.iter().map(|m| format!("{}({}){}{}", m.name, m.args.iter().map(|(n, t)| format!("{n}:{}", t.rust())).collect::<Vec<_>>().join(","), m.ret.map(|t| format!("->{}", t.rust())).unwrap_or_default(), if m.enabled { "" } else { "[cfg-off]" })).collect();
        o.desc = json!({"family": "S-gen", "index": i, "seed": seed, "service": s.name, "attr": s.derive, "methods": shape});
        let sun = unraw(&s.name);
        for m in mismatches.iter().filter(|m| m.starts_with(&format!("{sun}.")) || m.starts_with("shard")) {
            // a mismatch line names service.method; services may share names across modules, so
            // attribute to every service with that name (the replay shows the definitions)
            o.viol("C17", "misrouted", m.clone());
        }
        let mut h = FNV0;
        for f in &s.features {
            fnv(&mut h, f);
            o.cell(format!("C17.{f}"));
        }
        fnv(&mut h, &format!("{}", s.methods.len()));
        for m in &s.methods {
            fnv(&mut h, &format!("{}{:?}", m.args.len(), m.ret));
        }
        o.sig = h;
        o.nontrivial("C17");
        o.count("services", 1);
        o.count("methods", s.methods.iter().filter(|m| m.enabled).count() as u64);
        o.trace = vec![format!("trait {} {} {{ {} }}", s.name, s.derive, shape.join("; "))];
        outcomes.push(o);
    }
    if let Some(o) = outcomes.first_mut() {
        o.count("calls_checked", checks);
    }
    GenResult { outcomes, inconclusive: None }
}

/// compiles each negative program alone; a program that compiles is reported (acceptance alone is
/// not the violation, so it is run through the positive generator's oracle by the caller if needed)
pub fn run_negatives(verif_dir: &str, which: &[&str]) -> Vec<Outcome> {
    let dir = format!("{verif_dir}/gencrate");
    let mut outs = vec![];
    let negs = negatives();
    std::thread::scope(|sc| {
        let mut handles = vec![];
        for (k, (name, _)) in negs.iter().enumerate() {
            if !which.is_empty() && !which.contains(name) {
                continue;
            }
            let dir = dir.clone();
            handles.push(sc.spawn(move || {
                let r = std::process::Command::new("cargo")
                    .current_dir(&dir)
                    .env("CARGO_TARGET_DIR", format!("{dir}/target/neg{}", k % 4))
                    .args(["check", "--offline", "--bin", &format!("neg_{}", name.replace('-', "_"))])
                    .output();
                (*name, r)
            }));
        }
        for h in handles {
            let (name, r) = h.join().unwrap();
            let mut o = Outcome::default();
            o.desc = json!({"family": "S-gen", "case": "negative program", "name": name});
            match r {
                Err(e) => o.inconclusive = Some(format!("cargo check could not run: {e}")),
                Ok(r) => {
                    let err = String::from_utf8_lossy(&r.stderr);
                    if r.status.success() {
                        // accepted: only a miscompilation would violate the property; flag for attention
                        o.viol("C17", "colliding-definition-accepted", format!("the service definition '{name}' (a method/argument name colliding with generated items) compiled without error"));
                    } else {
                        let first = err.lines().find(|l| l.starts_with("error")).unwrap_or("").to_string();
                        o.trace = vec![format!("{name}: rejected: {first}")];
                        o.cell(format!("C17.negative.{name}"));
                    }
                }
            }
            o.sig = mix(0x4E6, name.len() as u64 * 131 + name.bytes().map(|b| b as u64).sum::<u64>());
            o.nontrivial("C17");
            o.count("negative_programs", 1);
            outs.push(o);
        }
    });
    outs
}

pub fn summary(v: &[Outcome]) -> Value {
    json!(v.len())
}
