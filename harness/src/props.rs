//! Per-property drivers: which scenario families, which directed shapes, how many random ones.
use crate::common::*;
use crate::mock::{Model, Op};
use crate::sclient::{self, Act, Cfg as CCfg, Dl, Order, YEAR_MS};
use crate::codec::{self, C15Cfg, EndMode, Link};
use crate::e2e::{self, Cfg as ECfg, Tk};
use crate::misc::{self, HasherKind, L};
use crate::sserver::{self, Cfg as SCfg, Mode, SAct, SDl};
use serde_json::{json, Value};
use std::collections::BTreeMap;

pub fn run(ctx: &RunCtx) -> i32 {
    if let Ok(one) = std::env::var("VERIF_ONE") {
        // debugging aid: run a single S-client scenario index and print its trace
        let i: u64 = one.parse().unwrap();
        let o = if std::env::var("VERIF_FAMILY").as_deref() == Ok("server") {
            let cfg = server_cfg(ctx.prop, i, ctx.seed, ctx.thorough());
            println!("{}", cfg.to_json());
            sserver::run(&cfg)
        } else {
            let cfg = client_cfg(ctx.prop, i, ctx.seed, ctx.thorough());
            println!("{}", cfg.to_json());
            sclient::run(&cfg)
        };
        for l in o.trace.iter().take(400) {
            println!("{l}");
        }
        for v in &o.viols {
            println!("VIOL {} {}", v.signature(), v.msg);
        }
        println!("inconclusive: {:?} counters {:?}", o.inconclusive, o.counters);
        return 0;
    }
    if let Ok(n) = std::env::var("VERIF_SCAN") {
        let n: u64 = n.parse().unwrap();
        let server = std::env::var("VERIF_FAMILY").as_deref() == Ok("server");
        for i in 0..n {
            let t = std::time::Instant::now();
            let (o, label) = if server {
                let cfg = server_cfg(ctx.prop, i, ctx.seed, ctx.thorough());
                (sserver::run(&cfg), cfg.label)
            } else {
                let cfg = client_cfg(ctx.prop, i, ctx.seed, ctx.thorough());
                (sclient::run(&cfg), cfg.label)
            };
            let el = t.elapsed().as_millis();
            if o.inconclusive.is_some() || el > 200 || !o.viols.is_empty() {
                println!("i={i} label={label} ms={el} inconclusive={:?} viols={:?}", o.inconclusive, o.viols.iter().map(|v| v.signature()).collect::<Vec<_>>());
            }
        }
        return 0;
    }
    match ctx.prop {
        "C01" | "C03" | "C05" => family_prop(ctx, &["client"]),
        "C02" => family_prop(ctx, &["client", "client", "e2e", "server"]),
        "C18" => family_prop(ctx, &["client", "client", "e2e"]),
        "C06" | "C08" | "C12" => family_prop(ctx, &["server"]),
        "C04" => family_prop(ctx, &["server", "server", "e2e"]),
        "C07" => family_prop(ctx, &["e2e"]),
        "C10" | "C14" => family_prop(ctx, &["client", "server"]),
        "C11" => family_prop(ctx, &["client", "server", "client", "server", "e2e"]),
        "C09" => c09(ctx),
        "C13" => c13(ctx),
        "C15" => c15(ctx),
        "C17" => c17(ctx),
        "C16" => c16(ctx),
        "C16bytes" => c16_bytes_worker(ctx),
        "C19" => c19(ctx),
        "C20" => c20(ctx),
        p => {
            eprintln!("unknown property {p}");
            2
        }
    }
}

pub fn replay(prop: &'static str, path: &str) -> i32 {
    let s = std::fs::read_to_string(path).expect("read replay file");
    let v: Value = serde_json::from_str(&s).expect("parse replay file");
    let sc = &v["scenario"];
    let fam = sc["family"].as_str().unwrap_or("");
    println!("replaying {fam} scenario for {prop}: {}", sc);
    let out = match fam {
        "S-client" => {
            let idx = sc["index"].as_u64().unwrap_or(0);
            let base_seed = sc["base_seed"].as_u64().unwrap_or(0);
            let p = sc["for_property"].as_str().unwrap_or(prop).to_string();
            let p: &'static str = Box::leak(p.into_boxed_str());
            let mut cfg = if p == "C09base" { c09_base_cfg(idx, base_seed) } else { client_cfg(p, idx, base_seed, sc["tier"].as_str() == Some("thorough")) };
            if let Some(f) = sc.get("fault_override") {
                if let (Some(o), Some(k)) = (f[0].as_u64(), f[1].as_u64()) {
                    cfg.fault = Some((Op::ALL[o as usize], k as usize));
                }
            }
            cfg.verbose = true;
            sclient::run(&cfg)
        }
        "S-server" => {
            let idx = sc["index"].as_u64().unwrap_or(0);
            let base_seed = sc["base_seed"].as_u64().unwrap_or(0);
            let p = sc["for_property"].as_str().unwrap_or(prop).to_string();
            let p: &'static str = Box::leak(p.into_boxed_str());
            let mut cfg = if p == "C09base" { c09_server_base_cfg(idx, base_seed) } else { server_cfg(p, idx, base_seed, sc["tier"].as_str() == Some("thorough")) };
            if let Some(f) = sc.get("fault_override") {
                if let (Some(o), Some(k)) = (f[0].as_u64(), f[1].as_u64()) {
                    cfg.fault = Some((Op::ALL[o as usize], k as usize));
                }
            }
            sserver::run(&cfg)
        }
        "S-e2e" => {
            let idx = sc["index"].as_u64().unwrap_or(0);
            let base_seed = sc["base_seed"].as_u64().unwrap_or(0);
            let p = sc["for_property"].as_str().unwrap_or(prop).to_string();
            let cfg = e2e_cfg(&p, idx, base_seed);
            let mode = [SubMode::None, SubMode::Fmt, SubMode::Otel, SubMode::OtelOff][cfg.sub as usize % 4];
            with_subscriber(mode, || e2e::run(&cfg))
        }
        _ => {
            println!("unknown family");
            return 2;
        }
    };
    for l in &out.trace {
        println!("{l}");
    }
    let mine: Vec<_> = out.viols.iter().filter(|x| x.prop == prop).collect();
    for x in &out.viols {
        println!("violation: {} {}", x.signature(), x.msg);
    }
    if mine.is_empty() {
        println!("replay: no violation of {prop} reproduced");
        0
    } else {
        println!("VIOLATION property={prop} replay={path}");
        1
    }
}

// ------------------------------------------------------------------------------------------
// client-side scenarios

/// Directed S-client shapes (each instantiated under many schedules by varying the seed).
fn client_directed(k: u64, seed: u64) -> Option<CCfg> {
    let mut c = CCfg::base(seed);
    c.label = "directed";
    let long = Dl::Ms(10_000);
    match k {
        // --- C03: abandonment with the dispatch running at each point of the guard's drop
        0..=3 => {
            // call enqueued, dispatch not yet polled, abandon (hook: entry/mid/exit/none), peer silent
            c.ncalls = 0;
            c.never_pct = 100;
            c.abandon_pct = 0;
            let hook = if k < 3 { Some(k as u8) } else { None };
            c.script = vec![
                Act::StartCall(long),
                Act::PollCaller(0),
                Act::Abandon(0, hook),
                Act::RunIdle,
            ];
            c.label = "C03-enqueued-then-abandoned";
        }
        4..=7 => {
            // transmitted then abandoned
            c.ncalls = 0;
            c.never_pct = 100;
            c.abandon_pct = 0;
            let hook = if k < 7 { Some((k - 4) as u8) } else { None };
            c.script = vec![
                Act::StartCall(long),
                Act::RunIdle,
                Act::Abandon(0, hook),
                Act::RunIdle,
            ];
            c.label = "C03-transmitted-then-abandoned";
        }
        8 | 9 => {
            // at in-flight capacity: second call queued behind the first, abandon the second
            c.ncalls = 0;
            c.max_in_flight = 1;
            c.never_pct = 100;
            c.abandon_pct = 0;
            c.script = vec![
                Act::StartCall(long),
                Act::RunIdle,
                Act::StartCall(long),
                Act::RunIdle,
                Act::Abandon(1, if k == 8 { Some(1) } else { None }),
                Act::RunIdle,
                Act::ReplyTo(0),
                Act::RunIdle,
            ];
            c.label = "C03-abandon-while-at-capacity";
        }
        10 | 11 => {
            // reply already buffered in the oneshot, caller not yet polled, then abandoned
            c.ncalls = 0;
            c.abandon_pct = 0;
            c.script = vec![
                Act::StartCall(long),
                Act::RunIdle,
                Act::ReplyTo(0),
                Act::PollDispatch,
                Act::Abandon(0, if k == 10 { Some(0) } else { None }),
                Act::RunIdle,
            ];
            c.label = "C03-abandon-with-reply-buffered";
        }
        12 | 13 => {
            // transport not ready while abandoning; cancel must follow once writable
            c.ncalls = 0;
            c.never_pct = 100;
            c.abandon_pct = 0;
            c.cap = 1;
            c.model = if k == 12 { Model::Coupled } else { Model::Independent };
            c.script = vec![
                Act::StartCall(long),
                Act::RunIdle,
                Act::CloseFlush,
                Act::StartCall(long),
                Act::RunIdle,
                Act::Abandon(0, None),
                Act::Abandon(1, Some(1)),
                Act::RunIdle,
            ];
            c.label = "C03-abandon-transport-not-ready";
        }
        // --- C05: real queueing delay counts against the deadline
        14 | 15 => {
            c.ncalls = 0;
            c.max_in_flight = 1;
            c.abandon_pct = 0;
            c.isolated_strays = false;
            c.script = vec![
                Act::StartCall(long),
                Act::RunIdle,
                Act::StartCall(Dl::Ms(40)),
                Act::RunIdle,
                Act::RealSleep(if k == 14 { 12 } else { 25 }),
                Act::ReplyTo(0),
                Act::RunIdle,
                Act::Advance(10),
                Act::RunIdle,
                Act::Advance(10),
                Act::RunIdle,
                Act::Advance(5),
                Act::RunIdle,
                Act::Advance(5),
                Act::RunIdle,
                Act::Advance(5),
                Act::RunIdle,
            ];
            c.label = "C05-real-queueing-delay";
        }
        16 => {
            // transport blocked for real time before transmission
            c.ncalls = 0;
            c.cap = 1;
            c.abandon_pct = 0;
            c.isolated_strays = false;
            c.never_pct = 100;
            c.script = vec![
                Act::StartCall(long),
                Act::RunIdle,
                Act::CloseFlush,
                Act::StartCall(Dl::Ms(30)),
                Act::RunIdle,
                Act::RealSleep(10),
                Act::OpenFlush,
                Act::FreeSlot,
                Act::RunIdle,
                Act::Advance(10),
                Act::RunIdle,
                Act::Advance(8),
                Act::RunIdle,
                Act::Advance(4),
                Act::RunIdle,
                Act::Advance(4),
                Act::RunIdle,
            ];
            c.label = "C05-real-delay-transport-blocked";
        }
        17 => {
            // deadline classes, one call each, peer silent: expiry must come, never early
            c.ncalls = 0;
            c.never_pct = 100;
            c.abandon_pct = 0;
            c.max_in_flight = 8;
            c.buffer = 8;
            c.script = vec![
                Act::StartCall(Dl::Past),
                Act::StartCall(Dl::Ms(0)),
                Act::StartCall(Dl::Ms(1)),
                Act::StartCall(Dl::Ms(5)),
                Act::StartCall(Dl::Ms(50)),
                Act::StartCall(Dl::Ms(3 * 3600 * 1000)),
                Act::StartCall(Dl::Ms(YEAR_MS)),
                Act::RunIdle,
            ];
            c.label = "C05-deadline-classes";
        }
        18 => {
            // reply and expiry at the same virtual millisecond / reply just before
            c.ncalls = 0;
            c.abandon_pct = 0;
            c.script = vec![
                Act::StartCall(Dl::Ms(20)),
                Act::StartCall(Dl::Ms(20)),
                Act::RunIdle,
                Act::Advance(19),
                Act::ReplyTo(0),
                Act::RunIdle,
                Act::Advance(1),
                Act::ReplyTo(1),
                Act::RunIdle,
            ];
            c.label = "C05-reply-vs-expiry";
        }
        // --- C10: handles dropped with cancels queued behind a blocked transport
        19 | 20 => {
            c.ncalls = 0;
            c.never_pct = 100;
            c.abandon_pct = 0;
            c.cap = 1;
            c.model = if k == 19 { Model::Coupled } else { Model::Independent };
            c.script = vec![
                Act::StartCall(long),
                Act::StartCall(long),
                Act::StartCall(long),
                Act::RunIdle,
                Act::FreeSlot,
                Act::RunIdle,
                Act::FreeSlot,
                Act::RunIdle,
                Act::CloseFlush,
                Act::Abandon(0, None),
                Act::Abandon(1, None),
                Act::Abandon(2, None),
                Act::DropHandle,
                Act::RunIdle,
            ];
            c.label = "C10-drop-handles-with-queued-cancels";
        }
        21 => {
            // peer closes the read side with calls in every stage
            c.ncalls = 0;
            c.never_pct = 100;
            c.abandon_pct = 0;
            c.max_in_flight = 1;
            c.buffer = 1;
            c.script = vec![
                Act::StartCall(long),
                Act::StartCall(long),
                Act::StartCall(long),
                Act::StartCall(long),
                Act::RunIdle,
                Act::Eof,
                Act::RunIdle,
            ];
            c.label = "C10-peer-closes-read-side";
        }
        // --- C11: long runs reusing slots
        22 | 23 => {
            c.ncalls = if k == 22 { 600 } else { 2500 };
            c.max_in_flight = if k == 22 { 3 } else { 8 };
            c.buffer = 2;
            c.cap = 2;
            c.abandon_pct = 25;
            c.never_pct = 10;
            c.deadlines = vec![Dl::Ms(3), Dl::Ms(50), Dl::Ms(10_000)];
            c.label = "C11-long-run";
        }
        // --- C02: each enabling event as the only thing that can make progress
        24 => {
            // capacity returning by expiry while requests wait
            c.ncalls = 0;
            c.never_pct = 100;
            c.abandon_pct = 0;
            c.max_in_flight = 1;
            c.script = vec![
                Act::StartCall(Dl::Ms(30)),
                Act::StartCall(long),
                Act::StartCall(long),
                Act::RunIdle,
                Act::Advance(40),
                Act::RunIdle,
            ];
            c.label = "C02-capacity-by-expiry";
        }
        25 => {
            // capacity returning by cancel
            c.ncalls = 0;
            c.never_pct = 100;
            c.abandon_pct = 0;
            c.max_in_flight = 1;
            c.script = vec![
                Act::StartCall(long),
                Act::StartCall(long),
                Act::RunIdle,
                Act::Abandon(0, None),
                Act::RunIdle,
            ];
            c.label = "C02-capacity-by-cancel";
        }
        26 | 27 => {
            // writability returning is the only enabling event
            c.ncalls = 0;
            c.abandon_pct = 0;
            c.cap = 1;
            c.model = if k == 26 { Model::Coupled } else { Model::Independent };
            c.script = vec![
                Act::StartCall(long),
                Act::RunIdle,
                Act::CloseFlush,
                Act::StartCall(long),
                Act::StartCall(long),
                Act::RunIdle,
                Act::OpenFlush,
                Act::FreeSlot,
                Act::RunIdle,
            ];
            c.label = "C02-writability-returns";
        }
        28 => {
            // caller blocked on a full pending_request_buffer
            c.ncalls = 0;
            c.abandon_pct = 0;
            c.buffer = 1;
            c.max_in_flight = 1;
            c.script = vec![
                Act::StartCall(long),
                Act::StartCall(long),
                Act::StartCall(long),
                Act::StartCall(long),
                Act::RunIdle,
            ];
            c.label = "C02-blocked-on-request-buffer";
        }
        29 | 30 => {
            // C05: an abandoned call whose cancellation cannot be written yet expires first; the
            // deadline of the call behind it must still be enforced
            c.ncalls = 0;
            c.never_pct = 100;
            c.abandon_pct = 0;
            c.cap = 2;
            c.max_in_flight = 4;
            c.model = if k == 29 { Model::Coupled } else { Model::Independent };
            c.isolated_strays = false;
            c.script = vec![
                Act::CloseFlush,
                Act::StartCall(Dl::Ms(20)),
                Act::StartCall(Dl::Ms(40)),
                Act::RunIdle,
                Act::Abandon(0, None),
                Act::RunIdle,
                Act::Advance(25),
                Act::RunIdle,
                Act::Advance(30),
                Act::RunIdle,
            ];
            c.label = "C05-expiry-of-abandoned-call-then-next-deadline";
        }
        31 | 32 => {
            // C10: the last handle goes away while the transport is back-pressured and a
            // cancellation for an abandoned in-flight call is still queued
            c.ncalls = 0;
            c.never_pct = 100;
            c.abandon_pct = 0;
            c.cap = 1;
            c.model = if k == 31 { Model::Coupled } else { Model::Independent };
            c.isolated_strays = false;
            c.script = vec![
                // (coupled model: not ready means an unflushed item sits in the only slot)
                Act::CloseFlush,
                Act::StartCall(long),
                Act::RunIdle,
                Act::Abandon(0, None),
                Act::DropHandle,
                Act::RunIdle,
                Act::OpenFlush,
                Act::RunIdle,
                Act::FreeSlot,
                Act::RunIdle,
                Act::FreeSlot,
                Act::RunIdle,
            ];
            c.label = "C10-handle-dropped-under-back-pressure-with-queued-cancel";
        }
        33 | 34 => {
            // C14: at the in-flight maximum with an unflushed request in a capacity-1 transport, the
            // call is abandoned and the last handle dropped between two polls of the dispatch
            c.ncalls = 0;
            c.never_pct = 100;
            c.abandon_pct = 0;
            c.cap = 1;
            c.max_in_flight = 1;
            c.model = if k == 33 { Model::Coupled } else { Model::Independent };
            c.isolated_strays = false;
            c.script = vec![
                Act::CloseFlush,
                Act::StartCall(long),
                Act::RunIdle,
                Act::Abandon(0, None),
                Act::DropHandle,
                Act::RunIdle,
                Act::OpenFlush,
                Act::RunIdle,
                Act::FreeSlot,
                Act::RunIdle,
                Act::FreeSlot,
                Act::RunIdle,
            ];
            c.label = "C14-at-capacity-unflushed-abandon-and-handle-drop-in-one-gap";
        }
        35 => {
            // C02: a burst of 70 calls is queued before the dispatch is polled for the first time;
            // the peer stays silent, so nothing but the dispatch's own wake-ups can finish the work
            c.ncalls = 0;
            c.never_pct = 100;
            c.abandon_pct = 0;
            c.cap = 128;
            c.max_in_flight = 128;
            c.buffer = 128;
            c.isolated_strays = false;
            c.model = Model::Independent;
            let mut sc = vec![];
            for _ in 0..70 {
                sc.push(Act::StartCall(Dl::Ms(1000)));
            }
            for k in 0..70 {
                sc.push(Act::PollCaller(k));
            }
            sc.push(Act::RunIdle);
            sc.push(Act::Advance(1100));
            sc.push(Act::RunIdle);
            c.script = sc;
            c.label = "C02-burst-queued-before-first-dispatch-poll";
        }
        _ => return None,
    }
    Some(c)
}
const N_CLIENT_DIRECTED: u64 = 36;

/// scenario `i` of property `prop`
pub fn client_cfg(prop: &str, i: u64, base_seed: u64, thorough: bool) -> CCfg {
    let seed = mix(base_seed, i.wrapping_mul(0x9E37) ^ 0xC0FFEE);
    // every 20th scenario (and the first few hundred) is a directed shape under a fresh schedule
    let directed_slot = i < N_CLIENT_DIRECTED * 8 || i % 20 == 0;
    if directed_slot {
        let k = i % N_CLIENT_DIRECTED;
        if let Some(mut c) = client_directed(k, seed) {
            if (k == 22 || k == 23) && !(thorough || i < N_CLIENT_DIRECTED) {
                c.ncalls = 200;
            }
            if (14..=16).contains(&k) && i >= N_CLIENT_DIRECTED * 2 && i % 200 != 0 {
                // real sleeps cost wall time: keep them rare after the first rounds
                return property_bias(prop, CCfg::random(seed), seed);
            }
            return c;
        }
    }
    property_bias(prop, CCfg::random(seed), seed)
}

fn property_bias(prop: &str, mut c: CCfg, seed: u64) -> CCfg {
    let mut r = Rng::new(seed ^ 0xB1A5);
    match prop {
        "C01" => {
            c.dup_pct = *r.pick(&[10, 30, 50]);
            c.stray_pct = *r.pick(&[10, 30, 50]);
            c.never_pct = *r.pick(&[0, 10]);
            c.isolated_strays = true;
            if r.chance(1, 3) {
                c.ncalls = 5 + r.below(28);
                c.max_in_flight = 32;
                c.buffer = 8;
            }
        }
        "C03" => {
            c.abandon_pct = *r.pick(&[30, 60, 90]);
            c.hooks = true;
            c.never_pct = *r.pick(&[10, 30, 60]);
            if c.deadlines.iter().all(|d| d.d_ms() < 1000) {
                c.deadlines.push(Dl::Ms(10_000));
            }
        }
        "C02" => {
            c.isolated_strays = r.chance(1, 3);
            // C02 quantifies over fault placements too: a transport that reports a failure must
            // not leave any call hanging either
            if r.chance(1, 4) {
                let op = *r.pick(&[Op::Send, Op::Send, Op::Send, Op::Ready, Op::Flush, Op::Next, Op::Eof]);
                c.fault = Some((op, 1 + r.below(12)));
                c.hooks = false;
            }
        }
        "C05" => {
            c.abandon_pct = *r.pick(&[0, 0, 10]);
            c.never_pct = *r.pick(&[30, 60, 100]);
            c.real_delay = r.chance(1, 25);
        }
        "C10" => {
            c.early_drop_handle = r.chance(1, 2);
            c.eof_pct = *r.pick(&[0, 15, 30]);
        }
        "C14" => {
            c.block_transport = true;
            c.cap = *r.pick(&[1, 1, 2, 3, 8]);
            // "never write after it reported a readiness, flush or close failure" needs failures
            if r.chance(1, 4) {
                let op = *r.pick(&[Op::Ready, Op::Flush, Op::Close, Op::Send, Op::Next]);
                c.fault = Some((op, 1 + r.below(15)));
                c.hooks = false;
            }
        }
        _ => {}
    }
    c
}

fn client_required_cells(prop: &str) -> Vec<String> {
    let v: Vec<&str> = match prop {
        "C01" => vec![
            "C01.stray.duplicate",
            "C01.stray.unknown-id",
            "C01.isolated-stray.max-id",
            "C01.isolated-stray.never-issued",
            "C01.isolated-stray.cancelled",
            "C01.isolated-stray.expired",
            "C01.isolated-stray.already-answered",
        ],
        "C02" => vec![
            "C02.outcome.ok",
            "C02.outcome.deadline",
            "C02.outcome.servererr",
            "C02.outcome.abandoned",
        ],
        "C03" => vec![
            "C03.abandon.never-polled",
            "C03.abandon.queued-or-blocked",
            "C03.abandon.transmitted",
            "C03.abandon.reply-in-inbox",
            "C03.abandon.reply-buffered",
            "C03.dispatch.at-capacity",
            "C03.dispatch.transport-not-ready",
            "C03.dispatch.idle-or-busy",
            "C03.hook.entry",
            "C03.hook.mid",
            "C03.hook.exit",
        ],
        "C05" => vec![
            "C05.deadline.past.deadline",
            "C05.deadline.zero.deadline",
            "C05.deadline.1-5ms.deadline",
            "C05.deadline.50ms-10s.deadline",
            "C05.deadline.hours.deadline",
            "C05.deadline.largest-span.deadline",
            "C05.deadline.50ms-10s.ok",
            "C05.real-queueing-delay",
        ],
        "C10" => vec![
            "C10.client.handles-dropped",
            "C10.client.handles-dropped-with-cancels",
            "C10.client.read-closed",
        ],
        "C11" => vec!["C11.client.all-over-idle", "C11.client.at-capacity"],
        "C14" => vec![
            "C14.client.pending.poll_ready.Coupled",
            "C14.client.pending.poll_ready.Independent",
            "C14.client.pending.poll_flush.Coupled",
            "C14.client.cap1.Coupled",
            "C14.client.cap1.Independent",
        ],
        _ => vec![],
    };
    v.into_iter().map(String::from).collect()
}

fn tag(o: &mut Outcome, i: u64, seed: u64, prop: &str, tier: &str) {
    if let Value::Object(m) = &mut o.desc {
        m.insert("index".into(), json!(i));
        m.insert("base_seed".into(), json!(seed));
        m.insert("for_property".into(), json!(prop));
        m.insert("tier".into(), json!(tier));
    }
}

/// Properties decided on the S-client / S-server / S-e2e families (round-robin over `fams`).
fn family_prop(ctx: &RunCtx, fams: &[&str]) -> i32 {
    let prop = ctx.prop;
    let n = ctx.n(40_000, 1_200_000);
    let thorough = ctx.thorough();
    let seed = ctx.seed;
    let tier = ctx.tier.clone();
    let client = fams.contains(&"client");
    let server = fams.contains(&"server");
    let e2e = fams.contains(&"e2e");
    let k = fams.len() as u64;
    let agg = run_parallel(prop, n, &ctx.known, |i| {
        if prop == "C01" && i == 0 {
            // one long connection: more round trips than any 16-bit id space has ids
            return misc::c01_long_run_ids(if thorough { 300_000 } else { 70_000 });
        }
        if (prop == "C07" || prop == "C18") && (1..=192).contains(&i) {
            // a retried call keeps the caller's deadline and trace on every attempt (Retry stub),
            // whatever made the earlier attempts fail
            let k = i - 1;
            let policy: Vec<bool> = (0..(k % 4)).map(|b| (k >> b) & 1 == 0).collect();
            let errs = ["e", "DEADLINE", "SHUTDOWN", "SEND"];
            let ek = errs[((k / 48) % 4) as usize];
            let results: Vec<Result<u64, String>> = (0..=policy.len()).map(|j| if (j + k as usize) % 2 == 0 { Err(if ek == "e" { format!("e{j}") } else { ek.to_string() }) } else { Ok(j as u64) }).collect();
            return misc::c20_retry(&policy, &results, ((k / 12) % 4) as u8, json!({"family": "S-stubs", "case": "retry context", "index": i}));
        }
        if prop == "C07" && i == 0 {
            // the documented 10-second default for a request that omits its deadline
            return crate::codec::c15_kinds_and_optionals();
        }
        if prop == "C14" && i < 40 {
            // conformance self-test of the instrumented transport itself
            let model = if i % 2 == 0 { Model::Coupled } else { Model::Independent };
            return crate::mock::selftest(mix(seed, i), model, 1 + (i as usize / 2) % 4);
        }
        let fam = fams[(i % k) as usize];
        let idx = i / k;
        match fam {
            "client" => {
                let cfg = client_cfg(prop, idx, seed, thorough);
                // C18: a logging-only subscriber must not change what is transmitted
                let mut o = if prop == "C18" && idx % 3 == 1 {
                    let mut o = with_subscriber(SubMode::Fmt, || sclient::run(&cfg));
                    o.cell("C18.fmt-subscriber");
                    o
                } else {
                    sclient::run(&cfg)
                };
                tag(&mut o, idx, seed, prop, &tier);
                o
            }
            "server" => {
                let cfg = server_cfg(prop, idx, seed, thorough);
                let mut o = sserver::run(&cfg);
                tag(&mut o, idx, seed, prop, &tier);
                o
            }
            _ => {
                let cfg = e2e_cfg(prop, idx, seed);
                let mode = [SubMode::None, SubMode::Fmt, SubMode::Otel, SubMode::OtelOff][cfg.sub as usize % 4];
                let mut o = with_subscriber(mode, || e2e::run(&cfg));
                tag(&mut o, idx, seed, prop, &tier);
                o
            }
        }
    });
    let mut agg = agg;
    let mut extra = BTreeMap::new();
    // real-threads tier (diversity source; safety verdicts only)
    if ["C01", "C02", "C03", "C11"].contains(&prop) {
        let runs = if thorough { 12 } else { 2 };
        for k in 0..runs {
            let (tasks, per) = if thorough { (32, 400) } else { (12, 120) };
            let mut o = crate::threads::run(mix(seed, 0x7EAD + k), tasks, per, 8);
            if o.inconclusive.is_some() && !thorough {
                // a loaded machine must not make the quick check inconclusive
                o.inconclusive = None;
                o.nontrivial.clear();
            }
            agg.add(o, &ctx.known);
        }
        extra.insert("real_threads_tier".into(), json!(format!("{runs} runs on an 8-worker tokio runtime")));
    }
    if thorough && ["C01", "C03"].contains(&prop) {
        miri_tier(ctx, &mut agg, &mut extra);
    }
    let mut req = vec![];
    if client {
        req.extend(client_required_cells(prop));
    }
    if server {
        req.extend(server_required_cells(prop));
    }
    if e2e {
        req.extend(e2e_required_cells(prop));
    }
    let fams = fams.iter().map(|f| format!("S-{f}")).collect::<std::collections::BTreeSet<_>>().into_iter().collect::<Vec<_>>().join(" + ");
    let rep = Report {
        level: "exploration",
        rule: format!(
            "{fams} scenarios: the real tarpc client dispatch / server channel against a harness-played peer over a monitored mock transport, under a seeded poll-granular scheduler on tokio's paused clock ({} + {} directed shapes x schedules, plus seeded random configurations and workloads). A case is non-trivial for {prop} when the property's premise was exercised in it (DESIGN.md section 4); distinct = distinct behaviour signatures (hash of the abstracted scheduler / transport / handler event sequence)",
            N_CLIENT_DIRECTED, N_SERVER_DIRECTED
        ),
        agg,
        extra,
        assumptions: vec![
            "the mock transport honours the Sink/Stream contract (self-tested)".into(),
            "deadline oracles use virtual time plus measured real-time brackets; the std and tokio clocks are shared by harness and tarpc".into(),
        ],
        required_cells: req,
        exhaustive: None,
    };
    finish(ctx, rep)
}

// ------------------------------------------------------------------------------------------
// server-side scenarios

fn server_directed(k: u64, seed: u64) -> Option<SCfg> {
    let mut c = SCfg::base(seed);
    c.label = "directed";
    c.nmsgs = 0;
    c.drop_pct = 0;
    c.hold_pct = 0;
    c.droph_pct = 0;
    let long = SDl::Ms(10_000);
    match k {
        0 | 1 => {
            // C12: at the limit, a cancel and a fresh request are read in one poll of the channel
            c.limit = Some(if k == 0 { 1 } else { 2 });
            c.script = vec![SAct::Fresh(long)];
            if k == 1 {
                c.script.push(SAct::Fresh(long));
            }
            c.script.extend([SAct::RunIdle, SAct::CancelNth(0), SAct::Fresh(long), SAct::RunIdle]);
            c.label = "C12-cancel-then-request-in-one-poll";
        }
        2 => {
            // C12: expiry then request in one poll
            c.limit = Some(1);
            c.script = vec![SAct::Fresh(SDl::Ms(20)), SAct::RunIdle, SAct::Advance(25), SAct::Fresh(long), SAct::RunIdle];
            c.label = "C12-expiry-then-request";
        }
        3 => {
            // C12: burst crossing the boundary
            c.limit = Some(2);
            c.script = vec![SAct::Fresh(long), SAct::Fresh(long), SAct::Fresh(long), SAct::Fresh(long), SAct::RunIdle];
            c.label = "C12-burst";
        }
        4 => {
            // C06/C11 known finding F6: limiter at its limit and sink not ready -> expiry unprocessed
            c.limit = Some(1);
            c.cap = 1;
            c.model = Model::Coupled;
            c.steps_per_handler = 1;
            c.err_pct = 0;
            c.script = vec![
                SAct::CloseFlush,
                SAct::Fresh(long),
                SAct::RunIdle,
                SAct::OpenAllGates,
                SAct::RunIdle,
                SAct::Fresh(SDl::Ms(50)),
                SAct::RunIdle,
                SAct::Advance(200),
                SAct::RunIdle,
            ];
            c.label = "F6-limiter-at-limit-sink-not-ready";
        }
        5..=8 => {
            // C04: cancel at each stage
            c.steps_per_handler = 2;
            c.err_pct = 0;
            c.cap = 1;
            c.model = Model::Coupled;
            c.script = match k {
                5 => vec![SAct::Fresh(long), SAct::PollServer, SAct::CancelNth(0), SAct::RunIdle], // before the handler's first poll
                6 => vec![SAct::Fresh(long), SAct::RunIdle, SAct::CancelNth(0), SAct::RunIdle], // running
                7 => vec![
                    // finished, response buffered, sink blocked
                    SAct::CloseFlush,
                    SAct::Fresh(long),
                    SAct::Fresh(long),
                    SAct::RunIdle,
                    SAct::OpenAllGates,
                    SAct::RunIdle,
                    SAct::CancelNth(1),
                    SAct::CancelNth(0),
                    SAct::RunIdle,
                    SAct::OpenFlush,
                    SAct::RunIdle,
                ],
                _ => vec![SAct::Fresh(long), SAct::RunIdle, SAct::OpenAllGates, SAct::RunIdle, SAct::CancelNth(0), SAct::RunIdle], // already written
            };
            c.label = "C04-cancel-stage";
        }
        9 => {
            // C06: several deadlines, peer silent
            c.script = vec![
                SAct::Fresh(SDl::Past),
                SAct::Fresh(SDl::Ms(0)),
                SAct::Fresh(SDl::Ms(1)),
                SAct::Fresh(SDl::Ms(5)),
                SAct::Fresh(SDl::Ms(50)),
                SAct::Fresh(SDl::Ms(3 * 3600 * 1000)),
                SAct::Fresh(SDl::Ms(YEAR_MS)),
                SAct::RunIdle,
            ];
            c.auto_gates = false;
            c.label = "C06-deadline-classes";
        }
        10 => {
            // C08: duplicate while in flight, then reuse after completion
            c.err_pct = 0;
            c.script = vec![
                SAct::Fresh(long),
                SAct::RunIdle,
                SAct::DupNth(0),
                SAct::RunIdle,
                SAct::OpenAllGates,
                SAct::RunIdle,
                SAct::DupNth(0),
                SAct::RunIdle,
            ];
            c.label = "C08-duplicate-then-reuse";
        }
        11 => {
            // C10: inbound ends while handlers run and the sink is slow
            c.cap = 1;
            c.script = vec![SAct::Fresh(long), SAct::Fresh(long), SAct::Fresh(SDl::Ms(30)), SAct::RunIdle, SAct::CloseFlush, SAct::Inject(sserver::PeerMsg::Eof), SAct::RunIdle];
            c.label = "C10-eof-with-work-in-progress";
        }
        12 => {
            // C11: application never runs / drops midway
            c.hold_pct = 50;
            c.drop_pct = 30;
            c.droph_pct = 10;
            c.nmsgs = 12;
            c.label = "C11-application-abandons";
        }
        13 => {
            // C11: long run on one connection
            c.nmsgs = 400;
            c.cancel_pct = 15;
            c.deadlines = vec![SDl::Ms(3), SDl::Ms(50), SDl::Ms(10_000)];
            c.label = "C11-long-run";
        }
        14 => {
            // C08: a duplicate with a shorter deadline must be ignored, deadline included
            c.err_pct = 0;
            c.auto_gates = false;
            c.script = vec![
                SAct::Fresh(long),
                SAct::RunIdle,
                SAct::DupNthD(0, SDl::Ms(20)),
                SAct::RunIdle,
                SAct::Advance(30),
                SAct::RunIdle,
                SAct::DupNth(0),
                SAct::RunIdle,
                SAct::OpenAllGates,
                SAct::RunIdle,
            ];
            c.label = "C08-duplicate-with-shorter-deadline";
        }
        _ => return None,
    }
    Some(c)
}
const N_SERVER_DIRECTED: u64 = 15;

pub fn server_cfg(prop: &str, i: u64, base_seed: u64, thorough: bool) -> SCfg {
    let seed = mix(base_seed, i.wrapping_mul(0x51ED) ^ 0x5E11);
    let directed_slot = i < N_SERVER_DIRECTED * 8 || i % 20 == 0;
    if directed_slot {
        let k = i % N_SERVER_DIRECTED;
        if let Some(mut c) = server_directed(k, seed) {
            if k == 13 {
                if thorough && i % 40 == 0 {
                    c.nmsgs = 2500;
                } else if i >= N_SERVER_DIRECTED {
                    c.nmsgs = 150;
                }
            }
            return c;
        }
    }
    let mut c = SCfg::random(seed);
    let mut r = Rng::new(seed ^ 0xB1A5);
    match prop {
        "C04" => {
            c.cancel_pct = *r.pick(&[25, 50]);
        }
        "C06" => {
            c.cancel_pct = *r.pick(&[0, 10]);
            c.deadlines.retain(|d| *d != SDl::Ms(10_000));
            if c.deadlines.is_empty() {
                c.deadlines.push(SDl::Ms(50));
            }
        }
        "C08" => {
            c.dup_pct = *r.pick(&[8, 20, 30]);
            c.reuse_pct = *r.pick(&[8, 20, 30]);
        }
        "C12" => {
            c.limit = Some(*r.pick(&[0, 1, 1, 2, 3, 8]));
            c.nmsgs = 3 + r.below(14);
        }
        "C14" => {
            if r.chance(1, 4) {
                let op = *r.pick(&[Op::Ready, Op::Flush, Op::Send, Op::Next]);
                c.fault = Some((op, 1 + r.below(15)));
            }
        }
        _ => {}
    }
    c
}

fn server_required_cells(prop: &str) -> Vec<String> {
    let v: Vec<&str> = match prop {
        "C04" => vec![
            "C04.cancel.not-yet-polled",
            "C04.cancel.handler-running",
            "C04.cancel.finished-unwritten",
            "C04.cancel.response-written",
            "C04.cancel.unknown-or-ended",
        ],
        "C06" => vec![
            "C06.expired.past",
            "C06.expired.zero",
            "C06.expired.1-5ms",
            "C06.expired.50ms-10s",
            "C06.expired.hours",
            "C06.expired.largest-span",
            "C06.finished-before-deadline",
        ],
        "C08" => vec!["C08.duplicate-while-in-flight"],
        "C10" => vec!["C10.server.ended"],
        "C11" => vec!["C11.server.idle-equality-checked"],
        "C12" => vec!["C12.throttled", "C12.admitted-at-L-1"],
        "C14" => vec![
            "C14.server.pending.poll_ready.Coupled",
            "C14.server.pending.poll_ready.Independent",
            "C14.server.pending.poll_flush.Coupled",
            "C14.mock-selftest.Coupled",
            "C14.mock-selftest.Independent",
        ],
        _ => vec![],
    };
    v.into_iter().map(String::from).collect()
}

// ------------------------------------------------------------------------------------------
// C09 (client half): fault enumeration

fn c09(ctx: &RunCtx) -> i32 {
    let prop = ctx.prop;
    let seed = ctx.seed;
    let nbase = ctx.n(10, 1500);
    let schedules = if ctx.thorough() { 3 } else { 1 };
    // 1) fault-free base runs count the calls of every transport operation
    // job = (is_server, base index, fault)
    let mut jobs: Vec<(bool, u64, Option<(Op, usize)>)> = vec![];
    let mut space = 0u64;
    for server in [false, true] {
        for b in 0..nbase * schedules {
            let counts = if server {
                let mut cfg = c09_server_base_cfg(b, seed);
                cfg.fault = Some((Op::Eof, usize::MAX));
                opcounts(&sserver::run(&cfg))
            } else {
                let mut cfg = c09_base_cfg(b, seed);
                cfg.fault = Some((Op::Eof, usize::MAX));
                opcounts(&sclient::run(&cfg))
            };
            jobs.push((server, b, None));
            for op in Op::ALL {
                let n = counts.get(&op).copied().unwrap_or(0);
                let upto = n.min(64);
                for k in 1..=upto {
                    jobs.push((server, b, Some((op, k))));
                    space += 1;
                }
                if n > 64 {
                    let mut r = Rng::new(mix(seed, b ^ op as u64));
                    for _ in 0..32 {
                        jobs.push((server, b, Some((op, 65 + r.below(n - 64)))));
                    }
                }
            }
        }
    }
    let jobs_ref = &jobs;
    let tier = ctx.tier.clone();
    let agg = run_parallel(prop, jobs.len() as u64, &ctx.known, |i| {
        let (server, b, fault) = jobs_ref[i as usize];
        let mut o = if server {
            let mut cfg = c09_server_base_cfg(b, seed);
            cfg.fault = fault;
            sserver::run(&cfg)
        } else {
            let mut cfg = c09_base_cfg(b, seed);
            cfg.fault = fault;
            sclient::run(&cfg)
        };
        tag(&mut o, b, seed, "C09base", &tier);
        if let (Value::Object(m), Some((op, k))) = (&mut o.desc, fault) {
            m.insert("fault_override".into(), json!([Op::ALL.iter().position(|x| *x == op).unwrap(), k]));
        }
        o
    });
    let mut extra = BTreeMap::new();
    extra.insert("base_scenarios".into(), json!(2 * nbase * schedules));
    extra.insert("fault_points_enumerated".into(), json!(space));
    let rep = Report {
        level: "fault_enumeration",
        rule: "for each base scenario (S-client: calls in every stage - blocked on the request buffer, queued, in flight, replied-but-unread; S-server: requests running, held, answered) a fault-free run counts the calls N_op of every transport method; the scenario is then re-run once per (op,k), k=1..N_op (all k when N_op<=64, else 64 + 32 sampled), and once per end-of-stream position; non-trivial = the fault actually fired; distinct = distinct behaviour signatures".into(),
        agg,
        extra,
        assumptions: vec!["schedules are replayed from the same seed, so the k-th call of an operation is the same call as in the counting run up to the point of the fault".into()],
        required_cells: vec![
            "C09.fault.poll_ready".into(),
            "C09.fault.start_send".into(),
            "C09.fault.poll_flush".into(),
            "C09.fault.poll_close".into(),
            "C09.fault.poll_next".into(),
            "C09.fault.end_of_stream".into(),
            "C09.server.fault.poll_ready".into(),
            "C09.server.fault.start_send".into(),
            "C09.server.fault.poll_flush".into(),
            "C09.server.fault.poll_next".into(),
        ],
        exhaustive: Some(true),
    };
    finish(ctx, rep)
}

pub fn c09_server_base_cfg(b: u64, seed: u64) -> SCfg {
    let s = mix(seed, b ^ 0xFA17);
    let mut r = Rng::new(s);
    let mut c = SCfg::base(s);
    c.label = "C09-server-base";
    c.mode = if b % 3 == 2 { Mode::Execute } else { Mode::Requests };
    c.model = if b % 2 == 0 { Model::Coupled } else { Model::Independent };
    c.cap = *r.pick(&[1, 2, 3]);
    c.limit = *r.pick(&[None, Some(1), Some(2)]);
    c.resp_buf = *r.pick(&[1, 2]);
    c.nmsgs = 4 + r.below(6);
    c.deadlines = vec![SDl::Ms(50), SDl::Ms(10_000), SDl::Ms(10_000)];
    c.cancel_pct = 15;
    c.droph_pct = 0;
    c
}

pub fn c09_base_cfg(b: u64, seed: u64) -> CCfg {
    let s = mix(seed, b ^ 0xF00D);
    let mut r = Rng::new(s);
    let mut c = CCfg::base(s);
    c.label = "C09-base";
    c.isolated_strays = false;
    c.hooks = false;
    c.model = if b % 2 == 0 { Model::Coupled } else { Model::Independent };
    c.cap = *r.pick(&[1, 2, 3]);
    c.max_in_flight = *r.pick(&[1, 2, 3]);
    c.buffer = *r.pick(&[1, 2]);
    c.ncalls = 4 + r.below(5);
    c.abandon_pct = *r.pick(&[20, 40]);
    c.never_pct = 20;
    c.deadlines = vec![Dl::Ms(50), Dl::Ms(10_000), Dl::Ms(10_000)];
    c.early_drop_handle = r.chance(1, 2);
    c.order = *r.pick(&[Order::InOrder, Order::Random]);
    if b % 5 == 4 {
        // quiet connection: the peer never answers, nobody abandons, deadlines are far away - after
        // a failed request write the calls queued behind it are the only work there is
        c.label = "C09-base-quiet";
        c.cap = 8;
        c.max_in_flight = 8;
        c.buffer = *r.pick(&[2, 8]);
        c.ncalls = 6 + r.below(3);
        c.abandon_pct = 0;
        c.never_pct = 100;
        c.deadlines = vec![Dl::Ms(10_000)];
        c.early_drop_handle = false;
    }
    c
}

fn opcounts(o: &Outcome) -> BTreeMap<Op, usize> {
    let mut m = BTreeMap::new();
    for (k, v) in o.counters.iter() {
        for op in Op::ALL {
            if *k == op_counter_name(op) {
                m.insert(op, *v as usize);
            }
        }
    }
    m
}
pub fn op_counter_name(op: Op) -> &'static str {
    match op {
        Op::Ready => "op.poll_ready",
        Op::Send => "op.start_send",
        Op::Flush => "op.poll_flush",
        Op::Close => "op.poll_close",
        Op::Next => "op.poll_next",
        Op::Eof => "op.end_of_stream",
    }
}

// ------------------------------------------------------------------------------------------
// C13: per-key channel limit (bounded-exhaustive + random)

const C13_ALPHA: [L; 5] = [L::Arrive(0), L::Arrive(1), L::CloseOldest(0), L::CloseOldest(1), L::Poll];

const C13_ALPHA7: [L; 7] = [L::Arrive(0), L::Arrive(1), L::CloseOldest(0), L::CloseOldest(1), L::Poll, L::Takeover(0), L::Takeover(1)];

fn c13_space(maxlen: u32, maxlen7: u32) -> u64 {
    2 * (1..=maxlen).map(|l| 5u64.pow(l)).sum::<u64>() + 2 * (1..=maxlen7).map(|l| 7u64.pow(l)).sum::<u64>()
}

fn c13_decode(mut idx: u64, maxlen: u32, maxlen7: u32) -> Option<(u32, Vec<L>)> {
    // index space: for n in {1,2}, for len in 1..=maxlen, all 5^len sequences; then the same over the
    // 7-letter alphabet (with take-overs) up to maxlen7; each followed by a final Poll
    for (alpha, ml) in [(&C13_ALPHA[..], maxlen), (&C13_ALPHA7[..], maxlen7)] {
        let b = alpha.len() as u64;
        for n in [1u32, 2] {
            for len in 1..=ml {
                let count = b.pow(len);
                if idx < count {
                    let mut ops = vec![];
                    let mut c = idx;
                    for _ in 0..len {
                        ops.push(alpha[(c % b) as usize]);
                        c /= b;
                    }
                    ops.push(L::Poll);
                    return Some((n, ops));
                }
                idx -= count;
            }
        }
    }
    None
}

fn c13(ctx: &RunCtx) -> i32 {
    let maxlen: u32 = if ctx.thorough() { 10 } else { 7 };
    let maxlen7: u32 = if ctx.thorough() { 8 } else { 6 };
    let exhaustive: u64 = c13_space(maxlen, maxlen7);
    let random = ctx.n(60_000, 3_000_000);
    let seed = ctx.seed;
    let agg = run_parallel(ctx.prop, exhaustive + random, &ctx.known, |i| {
        if let Some((n, ops)) = c13_decode(i, maxlen, maxlen7) {
            let desc = json!({"family": "S-listener", "kind": "exhaustive", "n": n, "ops": format!("{:?}", ops), "index": i});
            misc::c13_case(n, &ops, desc)
        } else {
            let mut r = Rng::new(mix(seed, i));
            let n = 1 + r.below(3) as u32;
            let keys = 1 + r.below(3) as u64;
            let len = 3 + r.below(30);
            let ops: Vec<L> = (0..len)
                .map(|_| {
                    let k = r.below(keys as usize) as u64;
                    match r.below(11) {
                        0..=3 => L::Arrive(k),
                        4 | 5 => L::CloseOldest(k),
                        6 => L::CloseNewest(k),
                        7 => L::Takeover(k),
                        _ => L::Poll,
                    }
                })
                .chain(std::iter::once(L::Poll))
                .collect();
            let desc = json!({"family": "S-listener", "kind": "random", "n": n, "ops": format!("{:?}", ops), "index": i, "base_seed": seed});
            misc::c13_case(n, &ops, desc)
        }
    });
    let mut extra = BTreeMap::new();
    extra.insert("exhaustive_sequences".into(), json!(exhaustive));
    extra.insert("exhaustive_bound".into(), json!(format!("all sequences of length 1..={maxlen} over {{arrive(k), close-oldest(k), poll}} x 2 keys, and of length 1..={maxlen7} over the same plus take-over(k) (an arrival whose hand-over inside the listener's poll closes the oldest live channel of its key), n in {{1,2}}, each followed by a poll")));
    let rep = Report {
        level: "exploration",
        rule: "S-listener: the real Incoming::max_channels_per_key over a scripted listener of real BaseChannels; the harness owns every yielded channel, so 'alive' is exact. Bounded-exhaustive enumeration of operation sequences plus seeded random longer sequences over 1-3 keys, n in 1..3. Non-trivial = at least one admit/shed decision was observed; distinct = distinct decision sequences (hash of arrivals, closes, polls, yields, sheds)".into(),
        agg,
        extra,
        assumptions: vec!["decisions are attributed in the order in which the scripted listener handed arrivals to the limiter inside one poll".into()],
        required_cells: vec!["C13.close-and-same-key-arrival-pending-at-one-poll".into(), "C13.close-inside-the-listeners-poll".into(), "C13.shed".into(), "C13.admit".into()],
        exhaustive: Some(true),
    };
    finish(ctx, rep)
}

// ------------------------------------------------------------------------------------------
// C19: request hooks (bounded-exhaustive + random)

fn c19(ctx: &RunCtx) -> i32 {
    let depth: u32 = if ctx.thorough() { 5 } else { 4 };
    let exhaustive: u64 = 22u64.pow(depth) * 2;
    let random = ctx.n(60_000, 10_000_000);
    let seed = ctx.seed;
    let kinds = codec::all_kinds();
    let wire = (kinds.len() * 2 * 4) as u64;
    let agg = run_parallel(ctx.prop, wire + exhaustive + random, &ctx.known, |i| {
        if i < wire {
            // a hook's error as the real client receives it over a serializing transport
            let k = kinds[(i as usize) % kinds.len()];
            let rest = (i as usize) / kinds.len();
            return misc::c19_wire_case(k, rest % 2 == 0, (rest / 2) as u8);
        }
        let i = i - wire;
        let mut next_id = 0u32;
        if i < exhaustive {
            let tree = misc::decode_tree(i, depth as usize, &mut next_id);
            misc::c19_case(&tree, json!({"family": "S-hooks", "kind": "exhaustive", "depth": depth, "code": i}))
        } else {
            let mut r = Rng::new(mix(seed, i));
            let d = 2 + r.below(7);
            let tree = misc::random_tree(&mut r, d, &mut next_id);
            misc::c19_case(&tree, json!({"family": "S-hooks", "kind": "random", "index": i, "base_seed": seed, "tree": format!("{:?}", tree)}))
        }
    });
    let mut extra = BTreeMap::new();
    extra.insert("exhaustive_trees".into(), json!(exhaustive));
    extra.insert("exhaustive_bound".into(), json!(format!("all hook trees of nesting depth <= {depth} over {{before(ok|fail), after(keep|ok|err), before_and_after(ok|fail x keep|ok|err), before().then..(length 0..3, each failing position).serving}} x leaf ok/err")));
    let rep = Report {
        level: "exploration",
        rule: "S-hooks: hook trees composed at run time from the real RequestHook combinators (each level is the real tarpc wrapper, type-erased by boxing its serve future) with recording hooks; a reference interpreter written from the property's sentences predicts the event sequence (hook ids, the whole context - trace id, span id, sampling decision, deadline - seen by before-hooks, handler and the after part of before_and_after, results incl. error kinds seen by after-hooks) and the final Result; each before-hook changes one context field chosen by its id, and hooks are written as structs or as closures (tarpc's blanket impls) depending on their id. In addition every io::ErrorKind produced by a hook in four placements is served by a real BaseChannel over the JSON and bincode serde transports to a real client, which must receive exactly that error. Distinct = distinct tree shapes".into(),
        agg,
        extra,
        assumptions: vec!["the context seen by a plain after-hook is not compared (the property does not constrain it)".into()],
        required_cells: vec!["C19.failing-before-hook".into(), "C19.both-before-fails".into(), "C19.after-rewrites".into(), "C19.chain".into(), "C19.chain-length-0".into(), "C19.over-the-wire.placement0".into(), "C19.over-the-wire.placement3".into()],
        exhaustive: Some(true),
    };
    finish(ctx, rep)
}

// ------------------------------------------------------------------------------------------
// C20: stubs

fn c20(ctx: &RunCtx) -> i32 {
    let seed = ctx.seed;
    // enumerate cases
    #[derive(Clone)]
    enum Case {
        RrSeq(usize, usize),
        RrConc(usize, usize, usize),
        RetryRr(usize, usize, Vec<u32>, usize),
        Ch(usize, usize, usize),
        Retry(Vec<bool>, Vec<Result<u64, String>>, u8),
    }
    let mut cases: Vec<Case> = vec![];
    for nb in 1..=17usize {
        for calls in [1usize, nb.saturating_sub(1).max(1), nb, nb + 1, 2 * nb + 1, 100, 1000] {
            cases.push(Case::RrSeq(nb, calls));
        }
    }
    if ctx.thorough() {
        for nb in [1usize, 2, 3, 7, 16] {
            cases.push(Case::RrSeq(nb, 100_000));
        }
    }
    for nb in 1..=9usize {
        for (k, att) in [vec![1u32], vec![2], vec![1, 2], vec![3, 1, 2], vec![1, 1, 4]].into_iter().enumerate() {
            cases.push(Case::RetryRr(nb, 3 * nb + 2, att.clone(), 0));
            cases.push(Case::RetryRr(nb, 50 + k, att, 3));
        }
    }
    let conc_rounds = ctx.n(6, 60) as usize;
    for round in 0..conc_rounds {
        for threads in [2usize, 3, 4, 8, 16] {
            for nb in [1usize, 2, 3, 5, 7, 16] {
                cases.push(Case::RrConc(nb, threads, 200 + 37 * round));
            }
        }
    }
    for nb in 1..=17usize {
        for hk in 0..6usize {
            for set in 0..(ctx.n(3, 30) as usize) {
                cases.push(Case::Ch(nb, hk, set));
            }
        }
    }
    // retry: every policy vector up to length 6 (ending with a decline or running out), result patterns
    for len in 0..=6usize {
        for bits in 0..(1u32 << len) {
            let policy: Vec<bool> = (0..len).map(|b| bits & (1 << b) != 0).collect();
            for pat in 0..6 {
                let results: Vec<Result<u64, String>> = (0..=len)
                    .map(|k| match pat {
                        0 => Ok(100 + k as u64),
                        1 => Err(format!("e{k}")),
                        3 => Err("SHUTDOWN".to_string()),
                        4 => Err(["DEADLINE", "SEND", "SHUTDOWN"][k % 3].to_string()),
                        5 => {
                            if k % 2 == 1 {
                                Err("SHUTDOWN".to_string())
                            } else {
                                Ok(100 + k as u64)
                            }
                        }
                        _ => {
                            if k % 2 == 0 {
                                Err(format!("e{k}"))
                            } else {
                                Ok(100 + k as u64)
                            }
                        }
                    })
                    .collect();
                for dc in 0..4u8 {
                    cases.push(Case::Retry(policy.clone(), results.clone(), dc));
                }
            }
        }
    }
    let cases_ref = &cases;
    let agg = run_parallel(ctx.prop, cases.len() as u64, &ctx.known, |i| {
        match &cases_ref[i as usize] {
            Case::RrSeq(nb, calls) => misc::c20_round_robin_seq(*nb, *calls, json!({"family": "S-stubs", "case": "round-robin sequential", "backends": nb, "calls": calls})),
            Case::RetryRr(nb, calls, att, unp) => misc::c20_retry_over_round_robin(*nb, *calls, att, *unp, json!({"family": "S-stubs", "case": "retry over round-robin", "backends": nb, "calls": calls, "attempts_per_call": att, "unpolled_future_every": unp})),
            Case::RrConc(nb, t, m) => misc::c20_round_robin_conc(*nb, *t, *m, json!({"family": "S-stubs", "case": "round-robin concurrent", "backends": nb, "threads": t, "calls_per_thread": m})),
            Case::Ch(nb, hk, set) => {
                let (kind, name) = match hk {
                    0 => (HasherKind::Random, "RandomState"),
                    1 => (HasherKind::Const(0), "const-0"),
                    2 => (HasherKind::Const(u64::MAX), "const-u64max"),
                    3 => (HasherKind::Identity, "identity"),
                    4 => (HasherKind::Fnv, "fnv"),
                    _ => (HasherKind::Const(u64::MAX - 1), "const-u64max-1"),
                };
                let mut r = Rng::new(mix(seed, (*nb as u64) << 16 | (*hk as u64) << 8 | *set as u64));
                let mut reqs: Vec<u64> = vec![0, 1, u64::MAX, u64::MAX - 1, *nb as u64, *nb as u64 - 1, (*nb as u64).wrapping_mul(u64::MAX / 3)];
                for _ in 0..40 {
                    reqs.push(r.next() >> r.below(64));
                }
                let again: Vec<u64> = reqs.clone();
                reqs.extend(again);
                r.shuffle(&mut reqs);
                misc::c20_consistent_hash(*nb, kind, name, &reqs, json!({"family": "S-stubs", "case": "consistent-hash", "backends": nb, "hasher": name, "set": set, "base_seed": seed}))
            }
            Case::Retry(p, res, dc) => misc::c20_retry(p, res, *dc, json!({"family": "S-stubs", "case": "retry", "policy": format!("{:?}", p), "results": format!("{:?}", res), "caller_deadline_class": dc})),
        }
    });
    let mut agg = agg;
    let mut extra = BTreeMap::new();
    if ctx.thorough() {
        miri_tier(ctx, &mut agg, &mut extra);
    }
    let rep = Report {
        level: "exploration",
        rule: "S-stubs: the real RoundRobin / ConsistentHash / Retry stubs over recording backends: round-robin after every prefix of sequential runs (1..17 backends, clones interleaved) and at the end of real-thread concurrent runs; consistent hash as a function into valid indices for 6 hashers including adversarial ones; retry against every boolean policy vector up to length 6 x 3 result patterns (attempt numbers, request identity by Arc pointer and value, last result returned). Distinct = distinct case parameters".into(),
        agg,
        extra,
        assumptions: vec!["counter wrap-around (2^64 calls) is out of reach of any execution".into()],
        required_cells: vec!["C20.rr.seq.backends1".into(), "C20.rr.seq.backends17".into(), "C20.rr.conc.threads16".into(), "C20.ch.hasher.const-u64max".into(), "C20.ch.hasher.RandomState".into(), "C20.retry.attempts1".into(), "C20.retry.attempts7".into(), "C20.retry.deadline-class0".into()],
        exhaustive: None,
    };
    finish(ctx, rep)
}

// ------------------------------------------------------------------------------------------
// e2e scenarios

pub fn e2e_cfg(prop: &str, i: u64, base_seed: u64) -> ECfg {
    let seed = mix(base_seed, i.wrapping_mul(0xE2E1) ^ 0x77);
    let mut c = ECfg::random(seed);
    let mut r = Rng::new(seed ^ 0xD1CE);
    if prop == "C18" || prop == "C07" {
        // subscriber modes: none, logging-only, OpenTelemetry with the always-on / always-off sampler
        c.sub = (i % 4) as u8;
        c.otel = c.sub >= 2;
        c.nested_with_current = c.otel && (i / 4) % 2 == 0;
    }
    // directed shapes: chains of every depth over every transport kind
    if i < 60 || i % 25 == 0 {
        let kinds = [Tk::Unbounded, Tk::Bounded(1), Tk::Json, Tk::Bincode];
        c.depth = 1 + (i % 3) as usize;
        c.transports = (0..c.depth).map(|h| kinds[((i / 3) as usize + h) % 4]).collect();
        c.label = "directed-chain";
        c.ncalls = 3;
        c.max_chunk = [1usize, 3, 4096][(i % 3) as usize];
        match prop {
            "C04" => {
                c.abandon_pct = 100;
                c.deadlines = vec![Some(10_000)];
                // every third directed chain: clients whose in-flight limit is exactly reached by one call
                if i % 3 == 1 {
                    c.client_max_in_flight = Some(1);
                    c.ncalls = 1;
                }
            }
            "C07" => {
                c.abandon_pct = 0;
                c.deadlines = vec![None, Some(0), Some(1), Some(1000), Some(10_000), Some(3 * 24 * 3600 * 1000), Some(3 * YEAR_MS), Some(60 * YEAR_MS)];
                c.leaf_gate = i % 2 == 0;
                c.real_transit = i % 5 == 0;
            }
            _ => {}
        }
        return c;
    }
    match prop {
        "C04" => {
            c.abandon_pct = *r.pick(&[50, 100]);
            if !c.deadlines.contains(&Some(10_000)) {
                c.deadlines.push(Some(10_000));
            }
        }
        "C07" => {
            c.abandon_pct = *r.pick(&[0, 0, 20]);
            if r.chance(1, 2) {
                c.transports = (0..c.depth).map(|_| *r.pick(&[Tk::Json, Tk::Bincode])).collect();
            }
        }
        _ => {}
    }
    c
}

fn e2e_required_cells(prop: &str) -> Vec<String> {
    let v: Vec<&str> = match prop {
        "C04" => vec!["C04.chain.head-abandoned", "C04.chain.cascade-depth2", "C04.chain.cascade-depth3"],
        "C07" => vec!["C07.current-context.sub2", "C07.current-context.sub3", "C15.request-without-deadline", "C07.hop1.serde", "C07.hop2.serde", "C07.hop3.serde", "C07.hop1.in-memory", "C07.hop3.in-memory", "C07.expired-on-send", "C07.real-transit-delay"],
        "C18" => vec!["C18.cancel-observed", "e2e.depth3", "C18.otel-subscriber", "e2e.subscriber-mode3"],
        _ => vec![],
    };
    v.into_iter().map(String::from).collect()
}

// ------------------------------------------------------------------------------------------
// C15: shipped transports deliver messages intact and in order

fn c15(ctx: &RunCtx) -> i32 {
    let seed = ctx.seed;
    let n = ctx.n(6_000, 300_000);
    let tier = ctx.tier.clone();
    let agg = run_parallel(ctx.prop, n, &ctx.known, |i| {
        if i == 0 {
            return codec::c15_kinds_and_optionals();
        }
        if i == 1 {
            return uds_smoke(seed);
        }
        if (2..=5).contains(&i) {
            return endpoint_smoke(seed, i % 2 == 1, i >= 4);
        }
        if i % 10 == 9 {
            // whole-stack integrity on real client/server chains
            let cfg = e2e_cfg("C15", i / 10, seed);
            let mut o = e2e::run(&cfg);
            tag(&mut o, i / 10, seed, "C15", &tier);
            return o;
        }
        let s = mix(seed, i ^ 0xC15);
        let mut r = Rng::new(s);
        let links = [Link::Unbounded, Link::Bounded(0), Link::Bounded(1), Link::Bounded(4), Link::Json, Link::Bincode, Link::Json, Link::Bincode];
        let link = links[(i % 8) as usize];
        let end = if matches!(link, Link::Unbounded) || r.chance(1, 2) { EndMode::Drop } else { EndMode::Close };
        let max_chunk = *r.pick(&[1usize, 1, 2, 7, 64, 4096]);
        let big = max_chunk >= 64 && r.chance(1, 6);
        let cfg = C15Cfg {
            seed: s,
            link,
            c2s: r.chance(1, 2),
            n: if big { 1 + r.below(20) } else { *r.pick(&[1usize, 2, 3, 10, 50, 200]) },
            big,
            max_chunk,
            pending_pct: *r.pick(&[0u64, 0, 20, 60]),
            end,
            prebuffered: matches!(link, Link::Json | Link::Bincode) && r.chance(1, 4),
        };
        codec::c15_case(&cfg)
    });
    let rep = Report {
        level: "exploration",
        rule: "S-codec: generated message sequences (all variants, boundary ids, empty / unicode / 64 KiB / 1 MiB bodies, every io::ErrorKind the platform can produce, every trace-context extreme) written at one end of each shipped transport (unbounded, bounded(0,1,4), serde JSON and bincode with the codec exactly as shipped over a byte pipe that fragments reads and writes down to 1 byte and injects Pending) and compared item by item with what the other end reads, then end-of-stream after drop or close; plus whole client/server chains from S-e2e (every 10th case), a real Unix-socket pair, the shipped tcp:: and unix:: listen/connect constructors over loopback / a socket file (one exchange each, incl. 1 MiB bodies), both shipped constructors of the serde transport (`new` with a fresh or a previously used Framed whose read buffer already holds tarpc frames, `Transport::from`), and hand-edited JSON with optional fields removed. Distinct = distinct (link, direction, fragmentation, end mode, length, variant prefix)".into(),
        agg,
        extra: BTreeMap::new(),
        assumptions: vec!["real sockets are exercised by three smoke exchanges only (kernel fragmentation is not controllable); the byte-stream quantifier is approximated by adversarial fragmentation of an in-memory pipe".into()],
        required_cells: vec![
            "C15.all-error-kinds".into(),
            "C15.cancel-without-trace-context".into(),
            "C15.request-without-deadline".into(),
            "C15.Json.c2s.Close".into(),
            "C15.Bincode.s2c.Drop".into(),
            "C15.Bounded_0_.c2s.Drop".into(),
            "C15.Unbounded.s2c.Drop".into(),
            "C15.frag.chunk1.pendingyes".into(),
            "C15.big-bodies".into(),
            "C15.uds-smoke".into(),
        ],
        exhaustive: None,
    };
    finish(ctx, rep)
}

fn uds_smoke(seed: u64) -> Outcome {
    use futures::{SinkExt, StreamExt};
    use tarpc::{ClientMessage, Response};
    let mut out = Outcome::default();
    out.desc = json!({"family": "S-codec", "case": "unix-socket smoke"});
    let rt = tokio::runtime::Builder::new_current_thread().enable_all().build().unwrap();
    let r = rt.block_on(async {
        let (a, b) = tokio::net::UnixStream::pair()?;
        let mut c = tarpc::serde_transport::new(
            tokio_util::codec::Framed::new(a, tokio_util::codec::LengthDelimitedCodec::new()),
            tokio_serde::formats::Bincode::<Response<String>, ClientMessage<String>>::default(),
        );
        let mut s = tarpc::serde_transport::new(
            tokio_util::codec::Framed::new(b, tokio_util::codec::LengthDelimitedCodec::new()),
            tokio_serde::formats::Bincode::<ClientMessage<String>, Response<String>>::default(),
        );
        let mut r = Rng::new(seed);
        let msgs = codec::gen_s2c(&mut r, 50, false);
        let msgs2 = msgs.clone();
        let w = async move {
            for m in msgs2.iter() {
                if let codec::Msg::Resp { id, body } = m {
                    let resp = Response { request_id: *id, message: body.clone().map_err(|(k, d)| tarpc::ServerError::new(k, d)) };
                    s.send(resp).await?;
                }
            }
            drop(s);
            Ok::<(), std::io::Error>(())
        };
        let rd = async move {
            let mut got = vec![];
            while let Some(x) = c.next().await {
                got.push(x?);
            }
            Ok::<Vec<Response<String>>, std::io::Error>(got)
        };
        let (wr, got) = tokio::join!(w, rd);
        wr?;
        let got = got?;
        Ok::<(Vec<codec::Msg>, Vec<Response<String>>), std::io::Error>((msgs, got))
    });
    match r {
        Err(e) => out.inconclusive = Some(format!("unix socket smoke could not run: {e}")),
        Ok((msgs, got)) => {
            if msgs.len() != got.len() {
                out.viol("C15", "item-count", format!("unix socket: {} written, {} read", msgs.len(), got.len()));
            }
            for (m, g) in msgs.iter().zip(got.iter()) {
                if let codec::Msg::Resp { id, body } = m {
                    let same = *id == g.request_id
                        && match (body, &g.message) {
                            (Ok(a), Ok(b)) => a == b,
                            (Err((k, d)), Err(e)) => *d == e.detail && (e.kind == *k || (!codec::PORTABLE.contains(k) && e.kind == std::io::ErrorKind::Other)),
                            _ => false,
                        };
                    if !same {
                        out.viol("C15", "item-altered-or-reordered", format!("unix socket: wrote {m:?}, read {g:?}"));
                        break;
                    }
                }
            }
            out.cell("C15.uds-smoke");
            out.nontrivial("C15");
            out.count("items_round_tripped", got.len() as u64);
        }
    }
    out.sig = 0x0d5;
    out.trace = vec!["50 responses over a real Unix-domain socket pair (bincode)".into()];
    out
}

/// The shipped endpoint constructors (`tcp::listen`/`connect`, `unix::listen`/`connect`) over the real
/// loopback / a real socket file: both directions, including a 1 MiB body. An environment without
/// loopback networking makes this sub-case a no-op (counted), never a verdict.
fn endpoint_smoke(seed: u64, unix: bool, custom: bool) -> Outcome {
    use futures::{SinkExt, StreamExt};
    use tarpc::{ClientMessage, Response};
    type C = ClientMessage<String>;
    type R = Response<String>;
    let name = match (unix, custom) {
        (true, false) => "unix::listen/connect",
        (false, false) => "tcp::listen/connect",
        (true, true) => "unix::listen/connect with a non-default framing configuration",
        (false, true) => "tcp::listen/connect with a non-default framing configuration",
    };
    let mut out = Outcome::default();
    out.desc = json!({"family": "S-codec", "case": format!("{name} smoke")});
    let rt = tokio::runtime::Builder::new_current_thread().enable_all().build().unwrap();
    let mut r = Rng::new(seed ^ 0xE0D);
    let mut c2s = codec::gen_c2s(&mut r, 30, false);
    let mut s2c = codec::gen_s2c(&mut r, 30, false);
    c2s.push(codec::Msg::Req { id: 77, body: "B".repeat(1 << 20), remaining: Some(std::time::Duration::from_secs(5)), trace: (1, 2, true) });
    s2c.push(codec::Msg::Resp { id: 77, body: Ok("b".repeat(1 << 20)) });
    let (c2s2, s2c2) = (c2s.clone(), s2c.clone());
    let (c2s3, s2c3) = (c2s.clone(), s2c.clone());
    let res = rt.block_on(async move {
        macro_rules! exchange {
            ($c:expr, $s:expr) => {{
                let (mut c, mut s) = ($c, $s);
                let client = async move {
                    for m in c2s2.iter() {
                        c.send(codec::to_client_message(m).0).await?;
                    }
                    let mut got = vec![];
                    while got.len() < s2c2.len() {
                        match c.next().await {
                            Some(x) => got.push(x?),
                            None => break,
                        }
                    }
                    Ok::<Vec<R>, std::io::Error>(got)
                };
                let n = c2s3.len();
                let server = async move {
                    let mut got = vec![];
                    while got.len() < n {
                        match s.next().await {
                            Some(x) => got.push(x?),
                            None => break,
                        }
                    }
                    for m in s2c3.iter() {
                        s.send(codec::to_response(m)).await?;
                    }
                    Ok::<Vec<C>, std::io::Error>(got)
                };
                match tokio::time::timeout(std::time::Duration::from_secs(120), async { tokio::join!(client, server) }).await {
                    Ok((a, b)) => Ok::<Option<(Vec<R>, Vec<C>)>, std::io::Error>(Some((a?, b?))),
                    Err(_) => Err(std::io::Error::new(std::io::ErrorKind::TimedOut, "WATCHDOG")),
                }
            }};
        }
        if unix {
            let path = tarpc::serde_transport::unix::TempPathBuf::with_random("tarpc-verif");
            let mut l = match tarpc::serde_transport::unix::listen(&path, tokio_serde::formats::Bincode::<C, R>::default).await {
                Ok(l) => l,
                Err(_) => return Ok(None),
            };
            let mut conn = tarpc::serde_transport::unix::connect(&path, tokio_serde::formats::Bincode::<R, C>::default);
            if custom {
                // what `config_mut()` documents: the framing of every accepted / connected transport
                l.config_mut().length_field_length(3).little_endian();
                conn.config_mut().length_field_length(3).little_endian();
            }
            let c = conn.await?;
            let s = l.next().await.ok_or_else(|| std::io::Error::new(std::io::ErrorKind::Other, "listener ended"))??;
            exchange!(c, s)
        } else {
            let mut l = match tarpc::serde_transport::tcp::listen("127.0.0.1:0", tokio_serde::formats::Json::<C, R>::default).await {
                Ok(l) => l,
                Err(_) => return Ok(None),
            };
            let addr = l.local_addr();
            let mut conn = tarpc::serde_transport::tcp::connect(addr, tokio_serde::formats::Json::<R, C>::default);
            if custom {
                l.config_mut().length_field_length(3).little_endian();
                conn.config_mut().length_field_length(3).little_endian();
            }
            let c = match conn.await {
                Ok(c) => c,
                Err(_) => return Ok(None),
            };
            let s = l.next().await.ok_or_else(|| std::io::Error::new(std::io::ErrorKind::Other, "listener ended"))??;
            exchange!(c, s)
        }
    });
    match res {
        Ok(None) => out.count("endpoint_smoke_unavailable", 1),
        Err(e) if e.kind() == std::io::ErrorKind::TimedOut && e.to_string() == "WATCHDOG" => out.inconclusive = Some(format!("{name}: the exchange did not finish within 120 s of real time")),
        Err(e) => out.viol("C15", "read-error", format!("{name}: {e}")),
        Ok(Some((resps, reqs))) => {
            if reqs.len() != c2s.len() || resps.len() != s2c.len() {
                out.viol("C15", "item-count", format!("{name}: {}/{} client messages and {}/{} responses arrived", reqs.len(), c2s.len(), resps.len(), s2c.len()));
            }
            for (m, g) in c2s.iter().zip(reqs.iter()) {
                let same = match (m, g) {
                    (codec::Msg::Req { id, body, trace, .. }, ClientMessage::Request(rq)) => *id == rq.id && *body == rq.message && *trace == codec::from_tctx(&rq.context.trace_context),
                    (codec::Msg::Cancel { id, trace }, ClientMessage::Cancel { request_id, trace_context }) => id == request_id && *trace == codec::from_tctx(trace_context),
                    _ => false,
                };
                if !same {
                    out.viol("C15", "item-altered-or-reordered", format!("{name}: a client message changed in transit (written {})", format!("{m:?}").chars().take(120).collect::<String>()));
                    break;
                }
            }
            for (m, g) in s2c.iter().zip(resps.iter()) {
                if let codec::Msg::Resp { id, body } = m {
                    let same = *id == g.request_id
                        && match (body, &g.message) {
                            (Ok(a), Ok(b)) => a == b,
                            (Err((k, d)), Err(e)) => *d == e.detail && (e.kind == *k || (!codec::PORTABLE.contains(k) && e.kind == std::io::ErrorKind::Other)),
                            _ => false,
                        };
                    if !same {
                        out.viol("C15", "item-altered-or-reordered", format!("{name}: a response changed in transit (written {})", format!("{m:?}").chars().take(120).collect::<String>()));
                        break;
                    }
                }
            }
            out.cell(format!("C15.{}-endpoints-smoke{}", if unix { "unix" } else { "tcp" }, if custom { ".custom-framing" } else { "" }));
            out.nontrivial("C15");
            out.count("items_round_tripped", (reqs.len() + resps.len()) as u64);
        }
    }
    out.sig = if unix { 0x0d6 } else { 0x0d7 } + if custom { 0x10 } else { 0 };
    out.trace = vec![format!("31 client messages and 31 responses (one 1 MiB body each way) over {name}")];
    out
}

// ------------------------------------------------------------------------------------------
// C16: no peer-supplied input can crash an endpoint

#[derive(Clone, Copy, Debug)]
enum SubMode {
    None,
    Fmt,
    Otel,
    OtelOff,
}
/// A dispatcher that is interested in every span stays registered for the whole process, so that
/// tracing's per-callsite interest cache can never be left at "never" while scoped subscribers of
/// different kinds come and go on the worker threads (which would silently disable tarpc's spans
/// for a moment and make OpenTelemetry-mode observations nondeterministic).
fn keepalive_dispatch() {
    use tracing_subscriber::layer::SubscriberExt;
    static KEEP: std::sync::OnceLock<tracing::Dispatch> = std::sync::OnceLock::new();
    KEEP.get_or_init(|| {
        use opentelemetry::trace::TracerProvider as _;
        let provider = opentelemetry_sdk::trace::TracerProvider::builder().build();
        let tracer = provider.tracer("tarpc-verif-keepalive");
        tracing::Dispatch::new(tracing_subscriber::registry().with(tracing_opentelemetry::layer().with_tracer(tracer)))
    });
}

fn with_subscriber<T>(m: SubMode, f: impl FnOnce() -> T) -> T {
    use tracing_subscriber::layer::SubscriberExt;
    keepalive_dispatch();
    match m {
        SubMode::None => f(),
        SubMode::Fmt => {
            let sub = tracing_subscriber::fmt().with_writer(std::io::sink).with_max_level(tracing::Level::TRACE).finish();
            tracing::subscriber::with_default(sub, f)
        }
        SubMode::OtelOff => {
            use opentelemetry::trace::TracerProvider as _;
            let provider = opentelemetry_sdk::trace::TracerProvider::builder()
                .with_config(opentelemetry_sdk::trace::Config::default().with_sampler(opentelemetry_sdk::trace::Sampler::AlwaysOff))
                .build();
            let tracer = provider.tracer("tarpc-verif-off");
            let sub = tracing_subscriber::registry().with(tracing_opentelemetry::layer().with_tracer(tracer));
            tracing::subscriber::with_default(sub, f)
        }
        SubMode::Otel => {
            use opentelemetry::trace::TracerProvider as _;
            let provider = opentelemetry_sdk::trace::TracerProvider::builder().build();
            let tracer = provider.tracer("tarpc-verif");
            let sub = tracing_subscriber::registry().with(tracing_opentelemetry::layer().with_tracer(tracer));
            tracing::subscriber::with_default(sub, f)
        }
    }
}

const Y: u64 = 31_536_000;
fn c16_client_cfg(i: u64, seed: u64) -> CCfg {
    let s = mix(seed, i ^ 0xC16C);
    let mut c = CCfg::random(s);
    let mut r = Rng::new(s ^ 1);
    c.label = "C16-local-deadlines";
    c.extreme_deadlines = true;
    let ext = [Dl::Beyond(2 * Y), Dl::Beyond(3 * Y), Dl::Beyond(100 * Y), Dl::Beyond(10_000 * Y), Dl::Beyond(u64::MAX / 4), Dl::Beyond(u64::MAX), Dl::Beyond(8_000 * Y), Dl::Ms(YEAR_MS), Dl::Ms(0), Dl::Past];
    c.deadlines = (0..3).map(|_| *r.pick(&ext)).collect();
    c.deadlines.push(Dl::Ms(10_000));
    c.ncalls = 2 + r.below(5);
    c.real_delay = false;
    c
}
fn c16_server_cfg(i: u64, seed: u64) -> SCfg {
    let s = mix(seed, i ^ 0xC165);
    let mut c = SCfg::random(s);
    let mut r = Rng::new(s ^ 1);
    c.label = "C16-peer-messages";
    c.extreme = true;
    let ext = [SDl::Beyond(2 * Y), SDl::Beyond(3 * Y), SDl::Beyond(100 * Y), SDl::Beyond(10_000 * Y), SDl::Beyond(u64::MAX / 4), SDl::Max, SDl::Beyond(8_000 * Y), SDl::Ms(YEAR_MS), SDl::Ms(0), SDl::Past];
    c.deadlines = (0..3).map(|_| *r.pick(&ext)).collect();
    c.deadlines.push(SDl::Ms(10_000));
    c.cancel_pct = *r.pick(&[10, 40]);
    c.dup_pct = *r.pick(&[8, 40]);
    c.nmsgs = 3 + r.below(14);
    c
}
/// F7: a timer armed after the DelayQueue has not fired anything for a very long time
fn c16_f7_cfg(seed: u64) -> SCfg {
    let mut c = SCfg::base(seed);
    c.label = "C16-long-uptime-then-year-deadline";
    c.nmsgs = 0;
    c.drop_pct = 0;
    c.hold_pct = 0;
    c.droph_pct = 0;
    c.err_pct = 0;
    c.extreme = true;
    c.script = vec![
        SAct::Fresh(SDl::Ms(10_000)),
        SAct::RunIdle,
        SAct::OpenAllGates,
        SAct::RunIdle,
        SAct::Advance(YEAR_MS + YEAR_MS / 4),
        SAct::RunIdle,
        SAct::Fresh(SDl::Ms(YEAR_MS)),
        SAct::RunIdle,
        SAct::OpenAllGates,
        SAct::RunIdle,
    ];
    c
}

fn c16(ctx: &RunCtx) -> i32 {
    let seed = ctx.seed;
    let n = ctx.n(12_000, 600_000);
    let tier = ctx.tier.clone();
    // hostile bytes run in a child process so that an allocation abort is observed, not suffered
    let exe = std::env::current_exe().expect("current exe");
    let child = std::process::Command::new(exe)
        .arg("C16bytes")
        .arg(&ctx.tier)
        .env("VERIF_SEED", format!("{}", ctx.seed as i64))
        .env("VERIF_DIR", &ctx.verif_dir)
        .output();
    let kind_codes: Vec<u32> = (0..=64u32).chain([255, 256, 65_535, 65_536, i32::MAX as u32, 1 << 31, u32::MAX - 1, u32::MAX]).collect();
    let nk = 2 * kind_codes.len() as u64;
    let kc = &kind_codes;
    let nm: u64 = 3 * 2 * 5 * 3;
    let mut agg = run_parallel(ctx.prop, n + nm + 84 + nk, &ctx.known, |i| {
        if i < nm {
            // kind x codec x target x number of well-formed frames before
            return codec::c16_malformed_case((i % 3) as u8, (i / 3) % 2 == 0, ((i / 6) % 5) as u8, [1usize, 0, 3][((i / 30) % 3) as usize]);
        }
        let i = i - nm;
        if i < 84 {
            return codec::c16_wire_deadline_case((i / 2) as usize, i % 2 == 0);
        }
        if i < 84 + nk {
            let k = i - 84;
            return codec::c16_kind_code_case(kc[(k / 2) as usize], k % 2 == 0);
        }
        let j = i - 84 - nk;
        let mode = [SubMode::None, SubMode::Fmt, SubMode::Otel][(j % 3) as usize];
        let mname = ["no-subscriber", "fmt-subscriber", "otel-subscriber"][(j % 3) as usize];
        let mut o = if j % 600 == 7 {
            let cfg = c16_f7_cfg(mix(seed, j));
            with_subscriber(mode, || sserver::run(&cfg))
        } else if (j / 3) % 2 == 0 {
            let cfg = c16_client_cfg(j / 6, seed);
            let mut o = with_subscriber(mode, || sclient::run(&cfg));
            tag(&mut o, j / 6, seed, "C16client", &tier);
            o
        } else {
            let cfg = c16_server_cfg(j / 6, seed);
            let mut o = with_subscriber(mode, || sserver::run(&cfg));
            tag(&mut o, j / 6, seed, "C16server", &tier);
            o
        };
        if let Value::Object(m) = &mut o.desc {
            m.insert("subscriber".into(), json!(mname));
        }
        o.cell(format!("C16.{mname}"));
        // F7 signature: a panic of DelayQueue::insert after more than a year without a fired timer
        for v in o.viols.iter_mut() {
            if v.prop == "C16" && v.rule == "panic" && v.msg.contains("invalid deadline") && o.desc["label"] == "C16-long-uptime-then-year-deadline" {
                v.state = "delayqueue-insert/uptime>1y-without-fired-timer".into();
            }
        }
        o
    });
    // merge the child's result
    match child {
        Err(e) => agg.inconclusive.push(format!("could not run the hostile-bytes worker: {e}")),
        Ok(outp) => {
            let stdout = String::from_utf8_lossy(&outp.stdout).to_string();
            let code = outp.status.code();
            match code {
                Some(0) | Some(1) => {
                    let path = format!("{}/evidence/C16bytes.json", ctx.verif_dir);
                    if let Ok(s) = std::fs::read_to_string(&path) {
                        if let Ok(v) = serde_json::from_str::<Value>(&s) {
                            let ev = v["coverage"]["evaluations"].as_u64().unwrap_or(0);
                            agg.evaluations += ev;
                            if let Some(c) = v["coverage"]["cells"].as_object() {
                                for (k, n) in c {
                                    *agg.cells.entry(k.clone()).or_default() += n.as_u64().unwrap_or(0);
                                }
                            }
                            if let Some(c) = v["coverage"]["observed_events"].as_object() {
                                for (k, n) in c {
                                    *agg.counters.entry(k.clone()).or_default() += n.as_u64().unwrap_or(0);
                                }
                            }
                            for k in 0..v["coverage"]["distinct_nontrivial"].as_u64().unwrap_or(0) {
                                agg.sigs.insert(mix(0xB17E5, k));
                            }
                            if let Some(w) = v["coverage"]["violation_witnesses"].as_array() {
                                for x in w {
                                    agg.viols.push((
                                        Viol::new("C16", "panic", x["message"].as_str().unwrap_or("").to_string()),
                                        json!({"family": "S-codec", "worker_replay": x["replay"]}),
                                        vec![],
                                    ));
                                    agg.viol_idx.push(u64::MAX);
                                }
                            }
                        }
                        let _ = std::fs::remove_file(&path);
                    }
                    if code == Some(1) && !stdout.contains("VIOLATION") {
                        agg.inconclusive.push("hostile-bytes worker exited 1 without a violation line".into());
                    }
                }
                Some(3) => agg.inconclusive.push("hostile-bytes worker was inconclusive".into()),
                other => {
                    // killed by a signal / abort: the endpoint took the process down
                    agg.viols.push((
                        Viol::new("C16", "abort", format!("the endpoint process died while decoding hostile bytes (status {other:?}); last output: {}", stdout.lines().last().unwrap_or(""))),
                        json!({"family": "S-codec", "case": "hostile-bytes worker"}),
                        vec![],
                    ));
                    agg.viol_idx.push(u64::MAX);
                }
            }
        }
    }
    let rep = Report {
        level: "exploration",
        rule: "(a) hostile byte strings (mutated valid encodings: bit flips, truncation, length-field edits, splices, garbage) fed to real server channels and client dispatches over both framed codecs, in a child process; (b) 84 wire-level boundary deadlines (0 .. u64::MAX seconds, nanos at limits) sent to a real server over JSON and bincode followed by a probe that must still be served; (c) S-server scenarios with extreme ids / deadlines decades to the numeric limits away / duplicate and unknown-id floods and S-client scenarios with extreme local caller deadlines, each under no subscriber, a formatting subscriber and an OpenTelemetry subscriber. Any panic caught around a poll is the violation. Distinct = distinct behaviour signatures".into(),
        agg,
        extra: BTreeMap::new(),
        assumptions: vec!["panics are observed with catch_unwind around every poll of tarpc code and by the exit status of the child process".into()],
        required_cells: vec![
            "C16.no-subscriber".into(),
            "C16.fmt-subscriber".into(),
            "C16.otel-subscriber".into(),
            "C16.wire-deadline.accepted".into(),
            "C16.kind-code.served".into(),
            "C16.bytes.json.server".into(),
            "C16.bytes.bincode.server".into(),
            "C16.bytes.json.client".into(),
            "C16.bytes.bincode.client".into(),
        ],
        exhaustive: None,
    };
    finish(ctx, rep)
}

fn c16_bytes_worker(ctx: &RunCtx) -> i32 {
    let n = ctx.n(20_000, 1_000_000);
    let seed = ctx.seed;
    let agg = run_parallel("C16", n, &ctx.known, |i| codec::c16_bytes_case(mix(seed, i ^ 0xB17E)));
    let ctx2 = RunCtx { prop: "C16", tier: ctx.tier.clone(), seed: ctx.seed, started: ctx.started, known: ctx.known.clone(), verif_dir: ctx.verif_dir.clone() };
    let rep = Report { level: "exploration", rule: "hostile bytes worker".into(), agg, extra: BTreeMap::new(), assumptions: vec![], required_cells: vec![], exhaustive: None };
    // written under a different name so that the parent can merge it
    let code = finish_named(&ctx2, rep, "C16bytes");
    code
}

// ------------------------------------------------------------------------------------------
// C17: generated service glue

fn c17(ctx: &RunCtx) -> i32 {
    let n = ctx.n(48, 640) as usize;
    let shards = if ctx.thorough() { 8 } else { 2 };
    let res = crate::gen::run_positive(&ctx.verif_dir, ctx.seed, n, shards);
    let mut agg = Agg::new(ctx.prop);
    agg.max_samples = 6;
    if let Some(i) = res.inconclusive {
        agg.inconclusive.push(i);
    }
    let compiled = res.outcomes.iter().all(|o| o.viols.iter().all(|v| v.rule != "accepted-shape-does-not-compile"));
    for o in res.outcomes {
        agg.add(o, &ctx.known);
    }
    if compiled {
        for o in crate::gen::run_negatives(&ctx.verif_dir, &[]) {
            agg.add(o, &ctx.known);
        }
    }
    let mut extra = BTreeMap::new();
    extra.insert("programs".into(), json!(agg.counters.get("services").copied().unwrap_or(0)));
    extra.insert("generated_sources".into(), json!(format!("{}/gencrate/src/bin", ctx.verif_dir)));
    let rep = Report {
        level: "exploration",
        rule: "S-gen: a seeded generator writes service definitions (1-12 methods, arity 0-6, equal and differing argument types, default / unit / tuple / generic returns, raw identifiers, underscores and mixed case, names of std methods, attributes and cfg on methods, every derive option), implementors that record (service, method, Debug of the arguments, context deadline and trace id) and return a value derived from the invocation number, and drivers that call every method through the generated client over the in-memory transport and through a Stub-based client wrapped in a spy recording RequestName::name(); the real #[tarpc::service] macro expands them, rustc compiles them against the current tree, and the drivers' comparisons are the oracle. Negative definitions (names colliding with generated items) must each fail to compile. Distinct = distinct feature/shape signatures of the generated services".into(),
        agg,
        extra,
        assumptions: vec!["a generated positive program that stops compiling is reported as a violation (the macro no longer accepts a supported shape)".into()],
        required_cells: vec![
            "C17.raw-method-ident".into(),
            "C17.raw-service-ident".into(),
            "C17.same-typed-args".into(),
            "C17.same-signature-siblings".into(),
            "C17.cfg-disabled-method".into(),
            "C17.ret-default".into(),
            "C17.arity0".into(),
            "C17.arg-named-like-generated-local".into(),
            "C17.context-typed-arg".into(),
            "C17.negative.method-new".into(),
            "C17.negative.method-serve".into(),
            "C17.negative.camel-collision-double-underscore".into(),
        ],
        exhaustive: None,
    };
    finish(ctx, rep)
}

// ------------------------------------------------------------------------------------------
// Miri tier (thorough only): UB / data races in the code reached through tarpc, weak-memory
// outcomes of the Relaxed counters, on a reduced cross-thread workload

fn miri_tier(ctx: &RunCtx, agg: &mut Agg, extra: &mut BTreeMap<String, Value>) {
    let dir = format!("{}/harness", ctx.verif_dir);
    let seeds = 16;
    let r = std::process::Command::new("cargo")
        .current_dir(&dir)
        .env("MIRIFLAGS", format!("-Zmiri-disable-isolation -Zmiri-many-seeds=0..{seeds}"))
        .env("CARGO_TARGET_DIR", format!("{dir}/target/miri"))
        .args(["+nightly", "miri", "run", "--offline", "--bin", "miri_tier"])
        .output();
    match r {
        Err(e) => agg.inconclusive.push(format!("Miri tier could not be started: {e}")),
        Ok(o) => {
            let out = String::from_utf8_lossy(&o.stdout).to_string();
            let err = String::from_utf8_lossy(&o.stderr).to_string();
            let oks = out.lines().filter(|l| l.starts_with("MIRI-TIER OK")).count();
            let ub = err.lines().find(|l| l.contains("Undefined Behavior") || l.contains("Data race")).map(String::from);
            extra.insert("miri_tier".into(), json!({"seeds": seeds, "runs_ok": oks, "flags": "-Zmiri-disable-isolation -Zmiri-many-seeds", "sample": out.lines().find(|l| l.starts_with("MIRI-TIER")).unwrap_or("")}));
            if let Some(u) = ub {
                agg.viols.push((Viol::new(ctx.prop, "miri-undefined-behaviour", format!("Miri reported: {u}")), json!({"family": "miri-tier", "stderr_tail": err.lines().rev().take(30).collect::<Vec<_>>()}), vec![]));
                agg.viol_idx.push(u64::MAX);
            } else if out.contains("MIRI-TIER VIOLATION") {
                let l = out.lines().find(|l| l.contains("MIRI-TIER VIOLATION")).unwrap_or("").to_string();
                agg.viols.push((Viol::new(ctx.prop, "miri-tier-oracle", l), json!({"family": "miri-tier"}), vec![]));
                agg.viol_idx.push(u64::MAX);
            } else if !o.status.success() || oks == 0 {
                agg.inconclusive.push(format!("Miri tier did not complete (status {:?}): {}", o.status.code(), err.lines().last().unwrap_or("")));
            } else {
                *agg.cells.entry("miri-tier.ok".into()).or_default() += oks as u64;
            }
        }
    }
}
