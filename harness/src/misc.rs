//! C13 (per-key channel limit), C19 (request hooks), C20 (load-balancing and retry stubs).
use crate::common::*;
use crate::mock::*;
use futures::{prelude::*, task::*};
use serde_json::json;
use std::{
    cell::RefCell,
    collections::{BTreeMap, HashMap, VecDeque},
    panic::{catch_unwind, AssertUnwindSafe},
    pin::Pin,
    rc::Rc,
    sync::{
        atomic::{AtomicU64, Ordering},
        Arc, Mutex,
    },
};
use tarpc::{
    client::{
        stub::{
            load_balance::{ConsistentHash, RoundRobin},
            retry::Retry,
            Stub,
        },
        RpcError,
    },
    context,
    server::{
        incoming::Incoming,
        request_hook::{before, AfterRequest, BeforeRequest, BeforeRequestList, RequestHook},
        BaseChannel, Serve,
    },
    trace, ClientMessage, Response, ServerError,
};

// =========================================================================================
// C13

type Base = BaseChannel<String, String, Mock<Response<String>, ClientMessage<String>>>;

#[derive(Clone, Copy, Debug, PartialEq)]
pub enum L {
    Arrive(u64),
    CloseOldest(u64),
    CloseNewest(u64),
    Poll,
    /// an arrival with key k whose hand-over by the listener - inside the listener's own poll -
    /// first closes the oldest live channel with that key (a session take-over; equally a close on
    /// another thread between the limiter's housekeeping and its poll of the listener)
    Takeover(u64),
}

type Alive = Rc<RefCell<Vec<(u64, u64, Box<dyn std::any::Any>)>>>; // (arrival, key, channel)

struct ListenerState {
    pending: VecDeque<Base>,
    taken: Vec<(u64, u64, u32)>, // (arrival, key, live channels with that key at hand-over)
    takeover: Vec<u64>,          // arrivals that close their predecessor when handed over
    alive: Alive,
    closed_inside_poll: Vec<u64>,
    waker: Option<Waker>,
    closed: bool,
}
struct Listener(Rc<RefCell<ListenerState>>);
impl Stream for Listener {
    type Item = Base;
    fn poll_next(self: Pin<&mut Self>, cx: &mut Context<'_>) -> Poll<Option<Base>> {
        let mut s = self.0.borrow_mut();
        if let Some(c) = s.pending.pop_front() {
            let (a, k) = {
                let st = c.get_ref().st.borrow();
                (st.tag2, st.tag)
            };
            if s.takeover.contains(&a) {
                let victim = {
                    let mut al = s.alive.borrow_mut();
                    al.iter().position(|(_, kk, _)| *kk == k).map(|p| al.remove(p))
                };
                if let Some((va, _, ch)) = victim {
                    drop(ch);
                    s.closed_inside_poll.push(va);
                }
            }
            let live = s.alive.borrow().iter().filter(|(_, kk, _)| *kk == k).count() as u32;
            s.taken.push((a, k, live));
            return Poll::Ready(Some(c));
        }
        if s.closed {
            return Poll::Ready(None);
        }
        s.waker = Some(cx.waker().clone());
        Poll::Pending
    }
}

pub fn c13_case(n: u32, ops: &[L], desc: serde_json::Value) -> Outcome {
    let mut out = Outcome::default();
    out.desc = desc;
    let alive: Alive = Default::default();
    let ls = Rc::new(RefCell::new(ListenerState {
        pending: VecDeque::new(),
        taken: vec![],
        takeover: vec![],
        alive: alive.clone(),
        closed_inside_poll: vec![],
        waker: None,
        closed: false,
    }));
    let limited = Listener(ls.clone()).max_channels_per_key(n, |c: &Base| c.get_ref().st.borrow().tag);
    let mut limited = Box::pin(limited);
    let fl = flag();
    let mut arrivals = 0u64;
    let mut sheds = 0u64;
    let mut admits = 0u64;
    let mut named_cell = false;
    let mut takeover_cell = false;
    let mut closes_since_poll: Vec<u64> = vec![];
    let mut arrivals_since_poll: Vec<u64> = vec![];
    let mut h = FNV0;
    for op in ops {
        match *op {
            L::Arrive(k) | L::Takeover(k) => {
                arrivals += 1;
                if matches!(op, L::Takeover(_)) {
                    ls.borrow_mut().takeover.push(arrivals);
                }
                let (m, st) = new_mock::<Response<String>, ClientMessage<String>>("listener", Model::Independent, 1, None);
                {
                    let mut s = st.borrow_mut();
                    s.tag = k;
                    s.tag2 = arrivals;
                }
                let ch = BaseChannel::with_defaults(m);
                let mut s = ls.borrow_mut();
                s.pending.push_back(ch);
                if let Some(w) = s.waker.take() {
                    w.wake();
                }
                arrivals_since_poll.push(k);
                out.trace.push(format!("arrive#{arrivals}(key {k})"));
                fnv(&mut h, "a");
            }
            L::CloseOldest(k) | L::CloseNewest(k) => {
                let victim = {
                    let mut al = alive.borrow_mut();
                    let pos = if matches!(op, L::CloseOldest(_)) {
                        al.iter().position(|(_, kk, _)| *kk == k)
                    } else {
                        al.iter().rposition(|(_, kk, _)| *kk == k)
                    };
                    pos.map(|p| al.remove(p))
                };
                if let Some((a, _, ch)) = victim {
                    drop(ch);
                    closes_since_poll.push(k);
                    out.trace.push(format!("close#{a}(key {k})"));
                    fnv(&mut h, "c");
                }
            }
            L::Poll => {
                if closes_since_poll.iter().any(|k| arrivals_since_poll.contains(k)) {
                    named_cell = true;
                }
                closes_since_poll.clear();
                arrivals_since_poll.clear();
                fnv(&mut h, "p");
                loop {
                    fl.clear();
                    let w = waker(fl.clone());
                    let r = catch_unwind(AssertUnwindSafe(|| limited.as_mut().poll_next(&mut Context::from_waker(&w))));
                    let r = match r {
                        Ok(r) => r,
                        Err(p) => {
                            out.viol("C13", "panic", format!("listener poll panicked: {}", crate::sclient::panic_msg(&p)));
                            return out;
                        }
                    };
                    let taken: Vec<(u64, u64, u32)> = ls.borrow_mut().taken.drain(..).collect();
                    for va in ls.borrow_mut().closed_inside_poll.drain(..) {
                        takeover_cell = true;
                        out.trace.push(format!("  (inside the listener's poll) close#{va}"));
                        fnv(&mut h, "t");
                    }
                    let yielded = match &r {
                        Poll::Ready(Some(ch)) => Some(ch.get_ref().get_ref().st.borrow().tag2),
                        _ => None,
                    };
                    for (a, k, live) in taken.iter() {
                        let live = *live;
                        if Some(*a) == yielded {
                            admits += 1;
                            if live >= n {
                                out.viol("C13", "limit-exceeded", format!("channel #{a} with key {k} was yielded while {live} >= n={n} yielded channels with that key are alive"));
                            }
                            out.trace.push(format!("  poll -> yield #{a}(key {k}) [alive before: {live}]"));
                            fnv(&mut h, "y");
                        } else {
                            sheds += 1;
                            if live < n {
                                out.viol("C13", "shed-below-limit", format!("channel #{a} with key {k} was shed although only {live} < n={n} channels with that key are alive"));
                            }
                            out.trace.push(format!("  poll -> shed #{a}(key {k}) [alive: {live}]"));
                            fnv(&mut h, "s");
                        }
                    }
                    match r {
                        Poll::Ready(Some(ch)) => {
                            let (a, k) = {
                                let st = ch.get_ref().get_ref().st.borrow();
                                (st.tag2, st.tag)
                            };
                            if !taken.iter().any(|(x, _, _)| *x == a) {
                                out.viol("C13", "yield-from-nowhere", format!("channel #{a} yielded but was not handed over by the listener in this poll"));
                            }
                            alive.borrow_mut().push((a, k, Box::new(ch)));
                        }
                        Poll::Ready(None) => break,
                        Poll::Pending => break,
                    }
                }
            }
        }
    }
    if named_cell {
        out.cell("C13.close-and-same-key-arrival-pending-at-one-poll");
    }
    if takeover_cell {
        out.cell("C13.close-inside-the-listeners-poll");
    }
    if sheds > 0 {
        out.cell("C13.shed");
    }
    if admits > 0 {
        out.cell("C13.admit");
    }
    out.count("arrivals", arrivals);
    out.count("admitted", admits);
    out.count("shed", sheds);
    if admits + sheds > 0 {
        out.nontrivial("C13");
    }
    h = (h ^ n as u64).wrapping_mul(1099511628211);
    out.sig = h;
    out
}

// =========================================================================================
// C19

#[derive(Clone, Debug, PartialEq)]
pub enum Rw {
    Keep,
    Ok,
    Err,
}
#[derive(Clone, Debug)]
pub enum Node {
    Leaf { ok: bool },
    Before { id: u32, fail: bool, inner: Box<Node> },
    After { id: u32, rw: Rw, inner: Box<Node> },
    Both { id: u32, fail: bool, rw: Rw, inner: Box<Node> },
    /// before().then(h1)...then(hk).serving(inner); (id, fail) per hook
    Chain { hooks: Vec<(u32, bool)>, inner: Box<Node> },
}

#[derive(Clone, Debug, PartialEq)]
pub enum HEv {
    B { id: u32, ctx: Cx },
    A { id: u32, ctx: Option<Cx>, res: Result<String, (std::io::ErrorKind, String)> },
    H { ctx: Cx },
}

/// everything a hook can see or change in a context: (trace id, span id, sampled, deadline in
/// seconds after a fixed base instant)
pub type Cx = (u128, u64, bool, u64);

fn base_instant() -> std::time::Instant {
    static BASE: std::sync::OnceLock<std::time::Instant> = std::sync::OnceLock::new();
    *BASE.get_or_init(std::time::Instant::now)
}
fn cx(ctx: &context::Context) -> Cx {
    (
        u128::from(ctx.trace_context.trace_id),
        u64::from(ctx.trace_context.span_id),
        ctx.trace_context.sampling_decision == trace::SamplingDecision::Sampled,
        ctx.deadline.saturating_duration_since(base_instant()).as_secs(),
    )
}
fn set_cx(ctx: &mut context::Context, c: Cx) {
    ctx.trace_context.trace_id = trace::TraceId::from(c.0);
    ctx.trace_context.span_id = trace::SpanId::from(c.1);
    ctx.trace_context.sampling_decision = if c.2 { trace::SamplingDecision::Sampled } else { trace::SamplingDecision::Unsampled };
    ctx.deadline = base_instant() + std::time::Duration::from_secs(c.3);
}
/// what before-hook `id` does to the context: exactly one field, chosen by the id
fn mutate(c: Cx, id: u32) -> Cx {
    match id % 4 {
        0 => (1000 + id as u128, c.1, c.2, c.3),
        1 => (c.0, 1000 + id as u64, c.2, c.3),
        2 => (c.0, c.1, !c.2, c.3),
        _ => (c.0, c.1, c.2, 100_000 + id as u64),
    }
}
/// hooks with such ids are written as closures (the blanket impls), the others as structs
fn closure_form(id: u32) -> bool {
    (id / 4) % 2 == 1
}
const START: Cx = (7, 70, false, 50_000);

type Log = Rc<RefCell<Vec<HEv>>>;

/// type-erased Serve so that hook trees can be composed at run time; every level is wrapped by the
/// real tarpc combinator and erased again by boxing the future its `serve` returns
#[derive(Clone)]
struct DynServe(Rc<dyn Fn(context::Context, String) -> Pin<Box<dyn Future<Output = Result<String, ServerError>>>>>);
impl Serve for DynServe {
    type Req = String;
    type Resp = String;
    async fn serve(self, ctx: context::Context, req: String) -> Result<String, ServerError> {
        (self.0)(ctx, req).await
    }
}

#[derive(Clone)]
struct BHook {
    id: u32,
    fail: bool,
    log: Log,
}
impl BeforeRequest<String> for BHook {
    async fn before(&mut self, ctx: &mut context::Context, _req: &String) -> Result<(), ServerError> {
        self.log.borrow_mut().push(HEv::B { id: self.id, ctx: cx(ctx) });
        let c = mutate(cx(ctx), self.id);
        set_cx(ctx, c);
        if self.fail {
            Err(ServerError::new(std::io::ErrorKind::PermissionDenied, format!("before{}", self.id)))
        } else {
            Ok(())
        }
    }
}
#[derive(Clone)]
struct AHook {
    id: u32,
    rw: Rw,
    log: Log,
    report_ctx: bool,
}
impl AfterRequest<String> for AHook {
    async fn after(&mut self, ctx: &mut context::Context, resp: &mut Result<String, ServerError>) {
        let seen = match resp {
            Ok(s) => Ok(s.clone()),
            Err(e) => Err((e.kind, e.detail.clone())),
        };
        self.log.borrow_mut().push(HEv::A { id: self.id, ctx: if self.report_ctx { Some(cx(ctx)) } else { None }, res: seen });
        match self.rw {
            Rw::Keep => {}
            Rw::Ok => *resp = Ok(format!("rw{}", self.id)),
            Rw::Err => *resp = Err(ServerError::new(std::io::ErrorKind::Other, format!("rwerr{}", self.id))),
        }
    }
}
#[derive(Clone)]
struct BAHook {
    b: BHook,
    a: AHook,
}
impl BeforeRequest<String> for BAHook {
    async fn before(&mut self, ctx: &mut context::Context, req: &String) -> Result<(), ServerError> {
        self.b.before(ctx, req).await
    }
}
impl AfterRequest<String> for BAHook {
    async fn after(&mut self, ctx: &mut context::Context, resp: &mut Result<String, ServerError>) {
        self.a.after(ctx, resp).await
    }
}

/// the same hooks as closures (exercising tarpc's blanket impls for `FnMut`)
fn bclosure(id: u32, fail: bool, log: Log) -> impl FnMut(&mut context::Context, &String) -> std::future::Ready<Result<(), ServerError>> + Clone {
    move |ctx, _req| {
        log.borrow_mut().push(HEv::B { id, ctx: cx(ctx) });
        let c = mutate(cx(ctx), id);
        set_cx(ctx, c);
        std::future::ready(if fail { Err(ServerError::new(std::io::ErrorKind::PermissionDenied, format!("before{id}"))) } else { Ok(()) })
    }
}
fn aclosure(id: u32, rw: Rw, log: Log) -> impl FnMut(&mut context::Context, &mut Result<String, ServerError>) -> std::future::Ready<()> + Clone {
    move |_ctx, resp| {
        let seen = match resp {
            Ok(s) => Ok(s.clone()),
            Err(e) => Err((e.kind, e.detail.clone())),
        };
        log.borrow_mut().push(HEv::A { id, ctx: None, res: seen });
        match rw {
            Rw::Keep => {}
            Rw::Ok => *resp = Ok(format!("rw{id}")),
            Rw::Err => *resp = Err(ServerError::new(std::io::ErrorKind::Other, format!("rwerr{id}"))),
        }
        std::future::ready(())
    }
}

fn erase<S: Serve<Req = String, Resp = String> + Clone + 'static>(s: S) -> DynServe {
    DynServe(Rc::new(move |ctx, req| {
        let s = s.clone();
        Box::pin(async move { s.serve(ctx, req).await })
    }))
}

fn build(node: &Node, log: &Log) -> DynServe {
    match node {
        Node::Leaf { ok } => {
            let log = log.clone();
            let ok = *ok;
            DynServe(Rc::new(move |ctx, _req| {
                let log = log.clone();
                Box::pin(async move {
                    log.borrow_mut().push(HEv::H { ctx: cx(&ctx) });
                    if ok {
                        Ok("leaf".to_string())
                    } else {
                        Err(ServerError::new(std::io::ErrorKind::NotFound, "leaferr".to_string()))
                    }
                })
            }))
        }
        Node::Before { id, fail, inner } if closure_form(*id) => erase(build(inner, log).before(bclosure(*id, *fail, log.clone()))),
        Node::Before { id, fail, inner } => erase(build(inner, log).before(BHook { id: *id, fail: *fail, log: log.clone() })),
        Node::After { id, rw, inner } if closure_form(*id) => erase(build(inner, log).after(aclosure(*id, rw.clone(), log.clone()))),
        Node::After { id, rw, inner } => erase(build(inner, log).after(AHook { id: *id, rw: rw.clone(), log: log.clone(), report_ctx: false })),
        Node::Both { id, fail, rw, inner } => erase(build(inner, log).before_and_after(BAHook {
            b: BHook { id: *id, fail: *fail, log: log.clone() },
            a: AHook { id: *id, rw: rw.clone(), log: log.clone(), report_ctx: true },
        })),
        Node::Chain { hooks, inner } => {
            let i = build(inner, log);
            let hk = |n: usize| BHook { id: hooks[n].0, fail: hooks[n].1, log: log.clone() };
            if !hooks.is_empty() && closure_form(hooks[0].0) {
                // first hook of the chain in closure form
                let c0 = bclosure(hooks[0].0, hooks[0].1, log.clone());
                return match hooks.len() {
                    1 => erase(before().then(c0).serving(i)),
                    2 => erase(before().then(c0).then(hk(1)).serving(i)),
                    3 => erase(before().then(c0).then(hk(1)).then(hk(2)).serving(i)),
                    4 => erase(before().then(c0).then(hk(1)).then(hk(2)).then(hk(3)).serving(i)),
                    _ => erase(before().then(c0).then(hk(1)).then(hk(2)).then(hk(3)).then(hk(4)).serving(i)),
                };
            }
            match hooks.len() {
                0 => erase(before().serving(i)),
                1 => erase(before().then(hk(0)).serving(i)),
                2 => erase(before().then(hk(0)).then(hk(1)).serving(i)),
                3 => erase(before().then(hk(0)).then(hk(1)).then(hk(2)).serving(i)),
                4 => erase(before().then(hk(0)).then(hk(1)).then(hk(2)).then(hk(3)).serving(i)),
                _ => erase(before().then(hk(0)).then(hk(1)).then(hk(2)).then(hk(3)).then(hk(4)).serving(i)),
            }
        }
    }
}

/// reference interpreter of the property's sentences
fn reference(node: &Node, ctx: Cx, log: &mut Vec<HEv>) -> Result<String, (std::io::ErrorKind, String)> {
    use std::io::ErrorKind as K;
    match node {
        Node::Leaf { ok } => {
            log.push(HEv::H { ctx });
            if *ok {
                Ok("leaf".into())
            } else {
                Err((K::NotFound, "leaferr".into()))
            }
        }
        Node::Before { id, fail, inner } => {
            log.push(HEv::B { id: *id, ctx });
            let c2 = mutate(ctx, *id);
            if *fail {
                return Err((K::PermissionDenied, format!("before{id}")));
            }
            reference(inner, c2, log)
        }
        Node::After { id, rw, inner } => {
            let r = reference(inner, ctx, log);
            log.push(HEv::A { id: *id, ctx: None, res: r.clone() });
            match rw {
                Rw::Keep => r,
                Rw::Ok => Ok(format!("rw{id}")),
                Rw::Err => Err((K::Other, format!("rwerr{id}"))),
            }
        }
        Node::Both { id, fail, rw, inner } => {
            log.push(HEv::B { id: *id, ctx });
            let c2 = mutate(ctx, *id);
            if *fail {
                return Err((K::PermissionDenied, format!("before{id}")));
            }
            let r = reference(inner, c2, log);
            log.push(HEv::A { id: *id, ctx: Some(c2), res: r.clone() });
            match rw {
                Rw::Keep => r,
                Rw::Ok => Ok(format!("rw{id}")),
                Rw::Err => Err((K::Other, format!("rwerr{id}"))),
            }
        }
        Node::Chain { hooks, inner } => {
            let mut c = ctx;
            for (id, fail) in hooks.iter().take(5) {
                log.push(HEv::B { id: *id, ctx: c });
                c = mutate(c, *id);
                if *fail {
                    return Err((K::PermissionDenied, format!("before{id}")));
                }
            }
            reference(inner, c, log)
        }
    }
}

/// decodes tree number `code` (mixed radix); returns None when the code is out of range
pub fn decode_tree(mut code: u64, depth: usize, next_id: &mut u32) -> Node {
    if depth == 0 {
        let ok = code % 2 == 0;
        return Node::Leaf { ok };
    }
    // 22 shapes per level: leaf-here(1), before(2), after(3), both(6), chain(10)
    let shape = code % 22;
    code /= 22;
    let mut id = || {
        *next_id += 1;
        *next_id
    };
    match shape {
        0 => Node::Leaf { ok: code % 2 == 0 },
        1 | 2 => {
            let i = id();
            Node::Before { id: i, fail: shape == 2, inner: Box::new(decode_tree(code, depth - 1, next_id)) }
        }
        3..=5 => {
            let i = id();
            let rw = [Rw::Keep, Rw::Ok, Rw::Err][(shape - 3) as usize].clone();
            Node::After { id: i, rw, inner: Box::new(decode_tree(code, depth - 1, next_id)) }
        }
        6..=11 => {
            let i = id();
            let k = shape - 6;
            let rw = [Rw::Keep, Rw::Ok, Rw::Err][(k % 3) as usize].clone();
            Node::Both { id: i, fail: k >= 3, rw, inner: Box::new(decode_tree(code, depth - 1, next_id)) }
        }
        _ => {
            // chains: length 0 (1), 1 (2: none/0 fails), 2 (3), 3 (4) = 10 shapes
            let k = shape - 12;
            let (len, failpos): (usize, Option<usize>) = match k {
                0 => (0, None),
                1 => (1, None),
                2 => (1, Some(0)),
                3 => (2, None),
                4 => (2, Some(0)),
                5 => (2, Some(1)),
                6 => (3, None),
                7 => (3, Some(0)),
                8 => (3, Some(1)),
                _ => (3, Some(2)),
            };
            let hooks: Vec<(u32, bool)> = (0..len).map(|p| (id(), failpos == Some(p))).collect();
            Node::Chain { hooks, inner: Box::new(decode_tree(code, depth - 1, next_id)) }
        }
    }
}

pub fn random_tree(r: &mut Rng, depth: usize, next_id: &mut u32) -> Node {
    if depth == 0 || r.chance(1, 8) {
        return Node::Leaf { ok: r.chance(3, 4) };
    }
    let mut id = || {
        *next_id += 1;
        *next_id
    };
    let rw = |r: &mut Rng| [Rw::Keep, Rw::Ok, Rw::Err][r.below(3)].clone();
    match r.below(4) {
        0 => {
            let i = id();
            let fail = r.chance(1, 6);
            Node::Before { id: i, fail, inner: Box::new(random_tree(r, depth - 1, next_id)) }
        }
        1 => {
            let i = id();
            let w = rw(r);
            Node::After { id: i, rw: w, inner: Box::new(random_tree(r, depth - 1, next_id)) }
        }
        2 => {
            let i = id();
            let fail = r.chance(1, 6);
            let w = rw(r);
            Node::Both { id: i, fail, rw: w, inner: Box::new(random_tree(r, depth - 1, next_id)) }
        }
        _ => {
            let len = r.below(6);
            let failpos = if r.chance(1, 3) && len > 0 { Some(r.below(len)) } else { None };
            let hooks: Vec<(u32, bool)> = (0..len).map(|p| (id(), failpos == Some(p))).collect();
            Node::Chain { hooks, inner: Box::new(random_tree(r, depth - 1, next_id)) }
        }
    }
}

fn shape_of(n: &Node, s: &mut String) {
    match n {
        Node::Leaf { ok } => s.push_str(if *ok { "L" } else { "Lx" }),
        Node::Before { fail, inner, .. } => {
            s.push_str(if *fail { "B!(" } else { "B(" });
            shape_of(inner, s);
            s.push(')');
        }
        Node::After { rw, inner, .. } => {
            s.push_str(&format!("A{:?}(", rw));
            shape_of(inner, s);
            s.push(')');
        }
        Node::Both { fail, rw, inner, .. } => {
            s.push_str(&format!("BA{}{:?}(", if *fail { "!" } else { "" }, rw));
            shape_of(inner, s);
            s.push(')');
        }
        Node::Chain { hooks, inner } => {
            s.push_str("C[");
            for (_, f) in hooks {
                s.push(if *f { '!' } else { '.' });
            }
            s.push_str("](");
            shape_of(inner, s);
            s.push(')');
        }
    }
}

pub fn c19_case(tree: &Node, desc: serde_json::Value) -> Outcome {
    let mut out = Outcome::default();
    out.desc = desc;
    let log: Log = Rc::new(RefCell::new(vec![]));
    let s = build(tree, &log);
    let mut ctx = context::current();
    set_cx(&mut ctx, START);
    let fut = s.serve(ctx, "req".to_string());
    let got = catch_unwind(AssertUnwindSafe(|| fut.now_or_never()));
    let got = match got {
        Ok(Some(r)) => r.map_err(|e| (e.kind, e.detail)),
        Ok(None) => {
            out.viol("C19", "pending", "the composed serve future did not complete although every hook is immediately ready".into());
            return out;
        }
        Err(p) => {
            out.viol("C19", "panic", format!("composed serve panicked: {}", crate::sclient::panic_msg(&p)));
            return out;
        }
    };
    let mut want_log = vec![];
    let want = reference(tree, START, &mut want_log);
    let got_log = log.borrow().clone();
    let mut shape = String::new();
    shape_of(tree, &mut shape);
    if got_log != want_log {
        // first difference
        let k = got_log.iter().zip(want_log.iter()).position(|(a, b)| a != b).unwrap_or(got_log.len().min(want_log.len()));
        out.viol(
            "C19",
            "event-sequence",
            format!("hook tree {shape}: event #{k} differs: observed {:?}, the property demands {:?} (observed {} events, expected {})", got_log.get(k), want_log.get(k), got_log.len(), want_log.len()),
        );
    }
    if got != want {
        out.viol("C19", "final-result", format!("hook tree {shape}: Serve::serve returned {got:?}, the property demands {want:?}"));
    }
    out.trace = got_log.iter().map(|e| format!("{e:?}")).collect();
    out.trace.insert(0, format!("tree {shape} -> {got:?}"));
    let mut h = FNV0;
    fnv(&mut h, &shape);
    out.sig = h;
    out.nontrivial("C19");
    // cells
    if shape.contains("B!") || shape.contains('!') {
        out.cell("C19.failing-before-hook");
    }
    if shape.contains("BA!") {
        out.cell("C19.both-before-fails");
    }
    if shape.contains("AOk") || shape.contains("AErr") {
        out.cell("C19.after-rewrites");
    }
    if shape.contains("C[") {
        out.cell("C19.chain");
    }
    if shape.contains("C[]") {
        out.cell("C19.chain-length-0");
    }
    out.count("hook_events", got_log.len() as u64);
    out
}

/// C19 across a serializing transport: a hook's error (or what an after-hook leaves in the result)
/// is what the real client receives. `place`: 0 = failing `before`, 1 = `after` rewriting the
/// result, 2 = failing before part of `before_and_after`, 3 = failing second hook of a chain.
pub fn c19_wire_case(kind: std::io::ErrorKind, json: bool, place: u8) -> Outcome {
    use futures::StreamExt;
    use tokio_util::codec::{Framed, LengthDelimitedCodec};
    #[derive(Clone)]
    struct FailB(std::io::ErrorKind);
    impl BeforeRequest<String> for FailB {
        async fn before(&mut self, _ctx: &mut context::Context, _req: &String) -> Result<(), ServerError> {
            Err(ServerError::new(self.0, "hook says no".to_string()))
        }
    }
    #[derive(Clone)]
    struct OkB;
    impl BeforeRequest<String> for OkB {
        async fn before(&mut self, _ctx: &mut context::Context, _req: &String) -> Result<(), ServerError> {
            Ok(())
        }
    }
    #[derive(Clone)]
    struct RwA(std::io::ErrorKind);
    impl AfterRequest<String> for RwA {
        async fn after(&mut self, _ctx: &mut context::Context, resp: &mut Result<String, ServerError>) {
            *resp = Err(ServerError::new(self.0, "hook says no".to_string()));
        }
    }
    #[derive(Clone)]
    struct BothB(std::io::ErrorKind);
    impl BeforeRequest<String> for BothB {
        async fn before(&mut self, _ctx: &mut context::Context, _req: &String) -> Result<(), ServerError> {
            Err(ServerError::new(self.0, "hook says no".to_string()))
        }
    }
    impl AfterRequest<String> for BothB {
        async fn after(&mut self, _ctx: &mut context::Context, _resp: &mut Result<String, ServerError>) {}
    }
    let mut out = Outcome::default();
    out.desc = json!({"family": "S-hooks", "kind": "over-the-wire", "error_kind": format!("{kind:?}"), "codec": if json { "json" } else { "bincode" }, "placement": place});
    let leaf = DynServe(Rc::new(|_ctx, _req| Box::pin(async { Ok("leaf".to_string()) })));
    let serve = match place {
        0 => erase(leaf.before(FailB(kind))),
        1 => erase(leaf.after(RwA(kind))),
        2 => erase(leaf.before_and_after(BothB(kind))),
        _ => erase(before().then(OkB).then(FailB(kind)).serving(leaf)),
    };
    let rt = tokio::runtime::Builder::new_current_thread().enable_all().build().unwrap();
    let local = tokio::task::LocalSet::new();
    let res = local.block_on(&rt, async move {
        let (a, b) = tokio::io::duplex(256);
        macro_rules! go {
            ($codec_c:expr, $codec_s:expr) => {{
                let ct = tarpc::serde_transport::new(Framed::new(a, LengthDelimitedCodec::new()), $codec_c);
                let st = tarpc::serde_transport::new(Framed::new(b, LengthDelimitedCodec::new()), $codec_s);
                let server = BaseChannel::with_defaults(st);
                tokio::task::spawn_local(tarpc::server::Channel::execute(server, serve).for_each(|f| async move {
                    tokio::task::spawn_local(f);
                }));
                let client = tarpc::client::new::<String, String, _>(tarpc::client::Config::default(), ct).spawn();
                tokio::time::timeout(std::time::Duration::from_secs(120), client.call(context::current(), "req".to_string())).await
            }};
        }
        if json {
            go!(tokio_serde::formats::Json::<Response<String>, ClientMessage<String>>::default(), tokio_serde::formats::Json::<ClientMessage<String>, Response<String>>::default())
        } else {
            go!(tokio_serde::formats::Bincode::<Response<String>, ClientMessage<String>>::default(), tokio_serde::formats::Bincode::<ClientMessage<String>, Response<String>>::default())
        }
    });
    let want = crate::codec::expected_kind(kind, true);
    match res {
        Err(_) => out.inconclusive = Some("over-the-wire hook case: no answer within 120 s of real time".into()),
        Ok(Err(RpcError::Server(e))) => {
            if e.kind != want || e.detail != "hook says no" {
                out.viol("C19", "wire-hook-error", format!("a hook (placement {place}) produced ServerError({kind:?}, \"hook says no\"); the client received ServerError({:?}, {:?}) (expected kind {want:?})", e.kind, e.detail));
            }
        }
        Ok(other) => out.viol("C19", "wire-hook-error", format!("a hook (placement {place}) produced ServerError({kind:?}); the client's call returned {other:?}")),
    }
    out.cell(format!("C19.over-the-wire.placement{place}"));
    out.nontrivial("C19");
    out.sig = 0xC19_0000 + ((place as u64) << 12) + ((json as u64) << 11) + crate::codec::all_kinds().iter().position(|k| *k == kind).unwrap_or(0) as u64;
    out.trace = vec![format!("hook error {kind:?} via placement {place} over {}", if json { "JSON" } else { "bincode" })];
    out
}

// =========================================================================================
// C20

#[derive(Clone)]
pub struct Backend {
    idx: usize,
    counts: Arc<Vec<AtomicU64>>,
    seen: Arc<Mutex<Vec<(usize, u64)>>>,
    record: bool,
}
impl Stub for Backend {
    type Req = u64;
    type Resp = usize;
    async fn call(&self, _ctx: context::Context, request: u64) -> Result<usize, RpcError> {
        self.counts[self.idx].fetch_add(1, Ordering::SeqCst);
        if self.record {
            self.seen.lock().unwrap().push((self.idx, request));
        }
        if STALL_NEXT.with(|c| c.replace(false)) {
            // a backend that never answers: the caller gives up (drops the future) while it waits
            futures::future::pending::<()>().await;
        }
        Ok(self.idx)
    }
}
thread_local! {
    /// the next backend call polled on this thread never completes
    static STALL_NEXT: std::cell::Cell<bool> = const { std::cell::Cell::new(false) };
}
fn backends(n: usize, record: bool) -> (Vec<Backend>, Arc<Vec<AtomicU64>>, Arc<Mutex<Vec<(usize, u64)>>>) {
    let counts = Arc::new((0..n).map(|_| AtomicU64::new(0)).collect::<Vec<_>>());
    let seen = Arc::new(Mutex::new(vec![]));
    ((0..n).map(|idx| Backend { idx, counts: counts.clone(), seen: seen.clone(), record }).collect(), counts, seen)
}
fn spread(counts: &[AtomicU64]) -> (u64, u64) {
    let v: Vec<u64> = counts.iter().map(|c| c.load(Ordering::SeqCst)).collect();
    (*v.iter().min().unwrap(), *v.iter().max().unwrap())
}

pub fn c20_round_robin_seq(nb: usize, calls: usize, desc: serde_json::Value) -> Outcome {
    let mut out = Outcome::default();
    out.desc = desc;
    let (bs, counts, _) = backends(nb, false);
    let rr = RoundRobin::new(bs);
    let rr2 = rr.clone();
    let mut abandoned_in_flight = 0usize;
    for i in 0..calls {
        let s = if i % 3 == 2 { &rr2 } else { &rr };
        if i % 5 == 4 {
            // a call future that is created and dropped without ever being polled is not a call
            drop(s.call(context::current(), i as u64));
        }
        if i % 7 == 6 {
            // a call that reached its backend and was given up while waiting for the answer (timeout,
            // select!) is a call like any other
            STALL_NEXT.with(|c| c.set(true));
            let mut f = Box::pin(s.call(context::current(), i as u64));
            if f.as_mut().now_or_never().is_some() {
                out.viol("C20", "round-robin-call-failed", format!("a call to a backend that never answers completed (call {i})"));
            }
            drop(f);
            abandoned_in_flight += 1;
            let (mn, mx) = spread(&counts);
            if mx - mn > 1 {
                out.viol("C20", "round-robin-unbalanced", format!("after {} sequential calls over {nb} backends ({abandoned_in_flight} of them given up while in flight) the per-backend counts differ by {} (min {mn}, max {mx})", i + 1 + abandoned_in_flight, mx - mn));
                break;
            }
        }
        let r = catch_unwind(AssertUnwindSafe(|| s.call(context::current(), i as u64).now_or_never()));
        match r {
            Ok(Some(Ok(_))) => {}
            other => {
                out.viol("C20", "round-robin-call-failed", format!("call {i} over {nb} backends: {:?}", other.map(|x| x.map(|y| y.map_err(|e| e.to_string())))));
                return out;
            }
        }
        let (mn, mx) = spread(&counts);
        if mx - mn > 1 {
            out.viol("C20", "round-robin-unbalanced", format!("after {} sequential calls over {nb} backends ({abandoned_in_flight} of them given up while in flight) the per-backend counts differ by {} (min {mn}, max {mx})", i + 1 + abandoned_in_flight, mx - mn));
            break;
        }
    }
    let total: u64 = counts.iter().map(|c| c.load(Ordering::SeqCst)).sum();
    if total != (calls + abandoned_in_flight) as u64 && out.viols.is_empty() {
        out.viol("C20", "round-robin-lost-call", format!("{} calls issued, backends saw {total}", calls + abandoned_in_flight));
    }
    out.count("round_robin_calls", calls as u64);
    out.cell(format!("C20.rr.seq.backends{}", nb.min(17)));
    out.trace = vec![format!("round-robin sequential: {nb} backends, {calls} calls, counts {:?}", counts.iter().map(|c| c.load(Ordering::SeqCst)).collect::<Vec<_>>())];
    out.sig = mix(nb as u64, calls as u64);
    out.nontrivial("C20");
    out
}

/// `Retry` over `RoundRobin` (the composition of examples/tracing.rs): every attempt is a call on
/// the round-robin stub, so attempts must be spread evenly too; and call futures that are created
/// but never polled are not calls.
pub struct ArcBackend(Backend);
impl Stub for ArcBackend {
    type Req = Arc<u64>;
    type Resp = usize;
    async fn call(&self, ctx: context::Context, request: Arc<u64>) -> Result<usize, RpcError> {
        self.0.call(ctx, *request).await
    }
}
pub fn c20_retry_over_round_robin(nb: usize, calls: usize, attempts_of: &[u32], unpolled_every: usize, desc: serde_json::Value) -> Outcome {
    let mut out = Outcome::default();
    out.desc = desc;
    let (bs, counts, _) = backends(nb, false);
    let rr = RoundRobin::new(bs.into_iter().map(ArcBackend).collect());
    let want = Rc::new(std::cell::Cell::new(1u32));
    let w2 = want.clone();
    let retry = Retry::new(rr, move |_r: &Result<usize, RpcError>, attempt: u32| attempt < w2.get());
    let mut expected_total = 0u64;
    for i in 0..calls {
        if unpolled_every > 0 && i % unpolled_every == unpolled_every - 1 {
            // created, never polled, dropped: not a call
            drop(retry.call(context::current(), i as u64));
        }
        let a = attempts_of[i % attempts_of.len()].max(1);
        want.set(a);
        expected_total += a as u64;
        let r = catch_unwind(AssertUnwindSafe(|| retry.call(context::current(), i as u64).now_or_never()));
        if !matches!(r, Ok(Some(Ok(_)))) {
            out.viol("C20", "round-robin-call-failed", format!("call {i} through Retry<RoundRobin> over {nb} backends did not complete with Ok"));
            return out;
        }
        let (mn, mx) = spread(&counts);
        if mx - mn > 1 {
            out.viol("C20", "round-robin-unbalanced-under-retry", format!("after {} calls ({expected_total} attempts) through Retry<RoundRobin> over {nb} backends the per-backend counts differ by {} (min {mn}, max {mx}); attempts per call {:?}, an unpolled call future every {unpolled_every}", i + 1, mx - mn, attempts_of));
            break;
        }
    }
    let total: u64 = counts.iter().map(|c| c.load(Ordering::SeqCst)).sum();
    if total != expected_total && out.viols.is_empty() {
        out.viol("C20", "retry-attempt-count", format!("{expected_total} attempts were due, the backends saw {total}"));
    }
    out.count("round_robin_calls", total);
    out.cell(format!("C20.retry-over-rr.backends{}", nb.min(17)));
    if unpolled_every > 0 {
        out.cell("C20.rr.unpolled-call-futures");
    }
    out.trace = vec![format!("Retry<RoundRobin>: {nb} backends, {calls} calls, attempts {:?}, counts {:?}", attempts_of, counts.iter().map(|c| c.load(Ordering::SeqCst)).collect::<Vec<_>>())];
    out.sig = mix(mix(nb as u64, calls as u64), attempts_of.iter().fold(unpolled_every as u64, |a, b| a * 7 + *b as u64) ^ 0x4E7);
    out.nontrivial("C20");
    out
}

pub fn c20_round_robin_conc(nb: usize, threads: usize, per_thread: usize, desc: serde_json::Value) -> Outcome {
    let mut out = Outcome::default();
    out.desc = desc;
    let (bs, counts, _) = backends(nb, false);
    let rr = RoundRobin::new(bs);
    let barrier = Arc::new(std::sync::Barrier::new(threads));
    std::thread::scope(|s| {
        for _ in 0..threads {
            let rr = rr.clone();
            let b = barrier.clone();
            s.spawn(move || {
                b.wait();
                for i in 0..per_thread {
                    let _ = futures::executor::block_on(rr.call(context::current(), i as u64));
                }
            });
        }
    });
    let (mn, mx) = spread(&counts);
    let total: u64 = counts.iter().map(|c| c.load(Ordering::SeqCst)).sum();
    if mx - mn > 1 {
        out.viol("C20", "round-robin-unbalanced-concurrent", format!("{threads} threads x {per_thread} calls over {nb} backends: counts differ by {} (min {mn}, max {mx})", mx - mn));
    }
    if total != (threads * per_thread) as u64 {
        out.viol("C20", "round-robin-lost-call", format!("{} calls issued, backends saw {total}", threads * per_thread));
    }
    out.count("round_robin_concurrent_calls", total);
    out.cell(format!("C20.rr.conc.threads{}", threads.min(16)));
    out.trace = vec![format!("round-robin concurrent: {nb} backends, {threads} threads x {per_thread}, min {mn} max {mx}")];
    out.sig = mix(mix(nb as u64, threads as u64), per_thread as u64 ^ 0xC0);
    out.nontrivial("C20");
    out
}

#[derive(Clone)]
pub enum HasherKind {
    Random,
    Const(u64),
    Identity,
    Fnv,
}
#[derive(Clone)]
pub struct HB(HasherKind, std::collections::hash_map::RandomState);
pub struct HH(HasherKind, u64, std::collections::hash_map::DefaultHasher);
impl std::hash::BuildHasher for HB {
    type Hasher = HH;
    fn build_hasher(&self) -> HH {
        HH(self.0.clone(), FNV0, self.1.build_hasher())
    }
}
impl std::hash::Hasher for HH {
    fn finish(&self) -> u64 {
        match self.0 {
            HasherKind::Random => self.2.finish(),
            HasherKind::Const(c) => c,
            HasherKind::Identity | HasherKind::Fnv => self.1,
        }
    }
    fn write(&mut self, bytes: &[u8]) {
        match self.0 {
            HasherKind::Random => self.2.write(bytes),
            HasherKind::Const(_) => {}
            HasherKind::Identity => {
                let mut b = [0u8; 8];
                let n = bytes.len().min(8);
                b[..n].copy_from_slice(&bytes[..n]);
                self.1 = u64::from_le_bytes(b);
            }
            HasherKind::Fnv => {
                for x in bytes {
                    self.1 = (self.1 ^ *x as u64).wrapping_mul(1099511628211);
                }
            }
        }
    }
}

pub fn c20_consistent_hash(nb: usize, kind: HasherKind, name: &str, reqs: &[u64], desc: serde_json::Value) -> Outcome {
    let mut out = Outcome::default();
    out.desc = desc;
    let (bs, _counts, seen) = backends(nb, true);
    // the backend list may have spare capacity (built by pushes): only `len` backends are valid
    let bs = if reqs.len() % 2 == 0 {
        let mut v = Vec::with_capacity(nb + 1 + nb % 7);
        v.extend(bs);
        v
    } else {
        bs
    };
    let ch = match ConsistentHash::with_hasher(bs, HB(kind, Default::default())) {
        Ok(c) => c,
        Err(e) => {
            out.viol("C20", "consistent-hash-construct", format!("{e:?}"));
            return out;
        }
    };
    let ch2 = ch.clone();
    let mut map: HashMap<u64, usize> = HashMap::new();
    for (i, r) in reqs.iter().enumerate() {
        let s = if i % 2 == 0 { &ch } else { &ch2 };
        let res = catch_unwind(AssertUnwindSafe(|| s.call(context::current(), *r).now_or_never()));
        match res {
            Ok(Some(Ok(idx))) => {
                if idx >= nb {
                    out.viol("C20", "consistent-hash-invalid-backend", format!("request {r} went to backend {idx} of {nb}"));
                }
                if let Some(prev) = map.insert(*r, idx) {
                    if prev != idx {
                        out.viol("C20", "consistent-hash-not-a-function", format!("hasher {name}: equal requests {r} went to backend {prev} and then to backend {idx} (of {nb})"));
                        break;
                    }
                }
            }
            Err(p) => {
                out.viol("C20", "consistent-hash-panic", format!("hasher {name}, {nb} backends, request {r}: {}", crate::sclient::panic_msg(&p)));
                break;
            }
            other => {
                out.viol("C20", "consistent-hash-call-failed", format!("{:?}", other.map(|x| x.map(|y| y.map_err(|e| e.to_string())))));
                break;
            }
        }
    }
    // the backend that answered is the backend that received exactly that request
    for (idx, r) in seen.lock().unwrap().iter() {
        if map.get(r) != Some(idx) && out.viols.is_empty() {
            out.viol("C20", "consistent-hash-request-altered", format!("backend {idx} received request {r} which the caller's map sends elsewhere"));
        }
    }
    out.count("consistent_hash_calls", reqs.len() as u64);
    out.cell(format!("C20.ch.hasher.{name}"));
    let used: std::collections::BTreeSet<usize> = map.values().cloned().collect();
    out.trace = vec![format!("consistent-hash: hasher {name}, {nb} backends, {} calls, {} distinct requests, backends used {:?}", reqs.len(), map.len(), used)];
    out.sig = mix(mix(nb as u64, reqs.len() as u64), name.len() as u64 ^ reqs.first().copied().unwrap_or(0));
    out.nontrivial("C20");
    out
}

/// backend for Retry: returns a unique result per attempt and records the Arc it was given
#[derive(Clone)]
struct RetryBackend {
    calls: Rc<RefCell<Vec<(*const String, String)>>>,
    results: Rc<Vec<Result<u64, String>>>,
    ctxs: Rc<RefCell<Vec<context::Context>>>,
}
impl Stub for RetryBackend {
    type Req = Arc<String>;
    type Resp = u64;
    async fn call(&self, ctx: context::Context, request: Arc<String>) -> Result<u64, RpcError> {
        self.ctxs.borrow_mut().push(ctx);
        let n = self.calls.borrow().len();
        self.calls.borrow_mut().push((Arc::as_ptr(&request), (*request).clone()));
        match self.results.get(n).cloned().unwrap_or(Ok(900 + n as u64)) {
            Ok(v) => Ok(v),
            // every kind of RpcError a wrapped stub can return
            Err(d) if d.starts_with("SHUTDOWN") => Err(RpcError::Shutdown),
            Err(d) if d.starts_with("DEADLINE") => Err(RpcError::DeadlineExceeded),
            Err(d) if d.starts_with("SEND") => Err(RpcError::Send(d.into())),
            Err(d) => Err(RpcError::Server(ServerError::new(std::io::ErrorKind::Other, d))),
        }
    }
}

/// policy: retry[i] says whether to retry after attempt i+1; after the script ends: decline
pub fn c20_retry(policy: &[bool], results: &[Result<u64, String>], deadline_class: u8, desc: serde_json::Value) -> Outcome {
    let mut out = Outcome::default();
    out.desc = desc;
    let calls = Rc::new(RefCell::new(vec![]));
    let ctxs = Rc::new(RefCell::new(vec![]));
    let be = RetryBackend { calls: calls.clone(), results: Rc::new(results.to_vec()), ctxs: ctxs.clone() };
    let seen_attempts: Rc<RefCell<Vec<(u32, Result<u64, String>)>>> = Rc::new(RefCell::new(vec![]));
    let sa = seen_attempts.clone();
    let pol = policy.to_vec();
    let retry = Retry::new(be, move |r: &Result<u64, RpcError>, attempt: u32| {
        let rr = match r {
            Ok(v) => Ok(*v),
            Err(RpcError::Server(e)) => Err(e.detail.clone()),
            Err(RpcError::Shutdown) => Err("SHUTDOWN".to_string()),
            Err(RpcError::DeadlineExceeded) => Err("DEADLINE".to_string()),
            Err(RpcError::Send(_)) => Err("SEND".to_string()),
            Err(e) => Err(e.to_string()),
        };
        sa.borrow_mut().push((attempt, rr));
        let k = sa.borrow().len() - 1;
        pol.get(k).copied().unwrap_or(false)
    });
    let req = format!("request-{}", policy.len());
    // the caller's context: a deadline that already passed / 2 s / the 10 s default / 30 s ahead
    let mut cctx = context::current();
    let now = std::time::Instant::now();
    cctx.deadline = match deadline_class {
        0 => now,
        1 => now + std::time::Duration::from_secs(2),
        2 => cctx.deadline,
        _ => now + std::time::Duration::from_secs(30),
    };
    cctx.trace_context.trace_id = trace::TraceId::from(0x5EED_0000u128 + policy.len() as u128);
    if (policy.len() + deadline_class as usize) % 2 == 1 {
        cctx.trace_context.sampling_decision = trace::SamplingDecision::Sampled;
    }
    let got = catch_unwind(AssertUnwindSafe(|| retry.call(cctx, req.clone()).now_or_never()));
    let got = match got {
        Ok(Some(r)) => match r {
            Ok(v) => Ok(v),
            Err(RpcError::Server(e)) => Err(e.detail),
            Err(RpcError::Shutdown) => Err("SHUTDOWN".to_string()),
            Err(RpcError::DeadlineExceeded) => Err("DEADLINE".to_string()),
            Err(RpcError::Send(_)) => Err("SEND".to_string()),
            Err(e) => Err(e.to_string()),
        },
        Ok(None) => {
            out.viol("C20", "retry-pending", "retry stub did not complete".into());
            return out;
        }
        Err(p) => {
            out.viol("C20", "retry-panic", crate::sclient::panic_msg(&p));
            return out;
        }
    };
    let expected_attempts = policy.iter().position(|b| !*b).map(|p| p + 1).unwrap_or(policy.len() + 1);
    let calls = calls.borrow();
    let seen = seen_attempts.borrow();
    if calls.len() != expected_attempts {
        out.viol("C20", "retry-attempt-count", format!("policy {policy:?} declines at attempt {expected_attempts}, but the backend was called {} times", calls.len()));
    }
    for (k, (a, _)) in seen.iter().enumerate() {
        if *a != k as u32 + 1 {
            out.viol("C20", "retry-attempt-number", format!("the policy was given attempt number {a} at its invocation #{} (expected {})", k + 1, k + 1));
            break;
        }
    }
    if seen.len() != calls.len() {
        out.viol("C20", "retry-policy-invocations", format!("{} backend calls but {} policy invocations", calls.len(), seen.len()));
    }
    for (k, (ptr, val)) in calls.iter().enumerate() {
        if *val != req {
            out.viol("C20", "retry-request-altered", format!("attempt {} carried request {val:?}, the caller passed {req:?}", k + 1));
        }
        if *ptr != calls[0].0 {
            out.viol("C20", "retry-request-not-identical", format!("attempt {} carried a different allocation of the request than attempt 1", k + 1));
        }
    }
    // the result returned is the last backend result, unchanged
    let want: Result<u64, String> = results.get(calls.len().saturating_sub(1)).cloned().unwrap_or(Ok(900 + calls.len().saturating_sub(1) as u64));
    if got != want && !calls.is_empty() {
        out.viol("C20", "retry-result", format!("retry returned {got:?} but the last backend result (attempt {}) was {want:?}", calls.len()));
    }
    for (k, (_, r)) in seen.iter().enumerate() {
        let w: Result<u64, String> = results.get(k).cloned().unwrap_or(Ok(900 + k as u64));
        if *r != w {
            out.viol("C20", "retry-policy-saw-wrong-result", format!("at attempt {} the policy saw {r:?}, the backend returned {w:?}", k + 1));
        }
    }
    // every attempt is issued for the same caller: same deadline, same trace id
    for (k, c) in ctxs.borrow().iter().enumerate() {
        if c.deadline != cctx.deadline {
            let d = if c.deadline > cctx.deadline { c.deadline - cctx.deadline } else { cctx.deadline - c.deadline };
            out.viol("C07", "retry-attempt-deadline-changed", format!("attempt {} of a retried call carried a deadline {d:?} away from the caller's", k + 1));
            out.viol("C20", "retry-attempt-context-changed", format!("attempt {} carried a different deadline ({d:?} off) than the caller passed", k + 1));
            break;
        }
    }
    for (k, c) in ctxs.borrow().iter().enumerate() {
        if c.trace_context.trace_id != cctx.trace_context.trace_id || c.trace_context.sampling_decision != cctx.trace_context.sampling_decision {
            out.viol("C18", "retry-attempt-trace-changed", format!("attempt {} of a retried call carried trace {:?}/{:?}, the caller supplied {:?}/{:?}", k + 1, c.trace_context.trace_id, c.trace_context.sampling_decision, cctx.trace_context.trace_id, cctx.trace_context.sampling_decision));
            out.viol("C20", "retry-attempt-context-changed", format!("attempt {} carried another trace context than the caller passed", k + 1));
            break;
        }
    }
    out.nontrivial("C18");
    out.nontrivial("C07");
    out.cell(format!("C20.retry.deadline-class{deadline_class}"));
    out.nontrivial("C07");
    out.count("retry_attempts", calls.len() as u64);
    out.cell(format!("C20.retry.attempts{}", calls.len().min(9)));
    out.trace = vec![format!("retry: policy {policy:?} results {results:?} -> {} attempts, returned {got:?}", calls.len())];
    let mut h = FNV0;
    fnv(&mut h, &format!("{policy:?}{}{deadline_class}", results.iter().map(|r| if r.is_ok() { 'o' } else { 'e' }).collect::<String>()));
    out.sig = h;
    out.nontrivial("C20");
    out
}

#[allow(dead_code)]
fn _unused(_: BTreeMap<u8, u8>) -> serde_json::Value {
    json!(null)
}

// =========================================================================================
// C01: one long connection - every wire id is used by exactly one call

/// A real spawned client over tarpc's in-memory channel, the harness plays the server by hand:
/// one call that is never answered (it expires), then `calls` sequential round trips; every request
/// must carry an id no earlier request of this connection carried, and every call must get the reply
/// sent for *its* id; finally a late reply for the expired call's id must not disturb the next call.
pub fn c01_long_run_ids(calls: usize) -> Outcome {
    use futures::{SinkExt, StreamExt};
    let mut out = Outcome::default();
    out.desc = json!({"family": "S-long-run", "case": "id uniqueness over one long connection", "calls": calls});
    let rt = tokio::runtime::Builder::new_current_thread().enable_time().start_paused(true).build().unwrap();
    let res: Result<(u64, Vec<String>), String> = rt.block_on(async move {
        let (c, mut s) = tarpc::transport::channel::unbounded::<Response<String>, ClientMessage<String>>();
        let client = tarpc::client::new::<String, String, _>(tarpc::client::Config::default(), c).spawn();
        let mut viols: Vec<String> = vec![];
        let mut seen: std::collections::HashSet<u64> = std::collections::HashSet::new();
        // the victim: transmitted, never answered, expires
        let mut ctx = context::current();
        ctx.deadline = std::time::Instant::now() + std::time::Duration::from_millis(50);
        let cl = client.clone();
        let victim = tokio::spawn(async move { cl.call(ctx, "victim".to_string()).await });
        let id_x = loop {
            match s.next().await {
                Some(Ok(ClientMessage::Request(r))) => break r.id,
                Some(Ok(_)) => continue,
                other => return Err(format!("the server end saw {:?} instead of the first request", other.map(|x| x.map(|_| ())))),
            }
        };
        seen.insert(id_x);
        match victim.await {
            Ok(Err(RpcError::DeadlineExceeded)) => {}
            other => return Err(format!("the unanswered call ended with {:?}", other.map(|r| r.map_err(|e| e.to_string())))),
        }
        let mut served = 0u64;
        for k in 0..calls + 1 {
            if k == calls {
                // a late reply for the expired call, just before the last round trip
                let _ = s.send(Response { request_id: id_x, message: Ok("late reply to the victim".to_string()) }).await;
            }
            let cl = client.clone();
            let body = format!("c{k}");
            let b2 = body.clone();
            let h = tokio::spawn(async move { cl.call(context::current(), b2).await });
            let (id, msg) = loop {
                match s.next().await {
                    Some(Ok(ClientMessage::Request(r))) => break (r.id, r.message),
                    Some(Ok(_)) => continue,
                    other => return Err(format!("the server end saw {:?} at call {k}", other.map(|x| x.map(|_| ())))),
                }
            };
            if !seen.insert(id) && viols.len() < 3 {
                viols.push(format!("wire id {id} of call #{k} was already used by an earlier request of this connection ({} requests so far)", seen.len()));
            }
            if msg != body {
                return Err(format!("call {k}: the request carried {msg:?}"));
            }
            let _ = s.send(Response { request_id: id, message: Ok(format!("reply to {msg}")) }).await;
            match h.await {
                Ok(Ok(r)) if r == format!("reply to {body}") => served += 1,
                other => {
                    if viols.len() < 3 {
                        viols.push(format!("call #{k} ({body}) completed with {:?}, the reply sent for its id was \"reply to {body}\"", other.map(|r| r.map_err(|e| e.to_string()))));
                    }
                    if viols.len() >= 3 {
                        break;
                    }
                }
            }
        }
        Ok((served, viols))
    });
    match res {
        Err(e) => out.inconclusive = Some(format!("long-run id case could not run: {e}")),
        Ok((served, viols)) => {
            for v in viols {
                let rule = if v.starts_with("wire id") { "wire-id-reused" } else { "foreign-reply" };
                out.viol("C01", rule, v);
            }
            out.count("long_run_round_trips", served);
            out.cell("C01.long-connection.id-uniqueness");
            out.nontrivial("C01");
        }
    }
    out.sig = 0xC01_1D5;
    out.trace = vec![format!("{calls} sequential round trips on one connection after an expired call")];
    out
}
