//! S-threads: real client <-> real server on a multi-thread tokio runtime with real time; cloned
//! handles hammered from many tasks; abandonment by tiny timeouts and task aborts. A diversity
//! source for C01 / C02 / C03 / C11 (safety verdicts only; a hang here is inconclusive).
use crate::common::*;
use crate::mock::{Abstract, Item};
use futures::{prelude::*, task::*};
use serde_json::json;
use std::{
    collections::HashMap,
    pin::Pin,
    sync::{
        atomic::{AtomicU64, Ordering},
        Arc, Mutex,
    },
    time::{Duration, Instant},
};
use tarpc::{
    client, context,
    server::{BaseChannel, Channel},
    ClientMessage, Response,
};

pub struct TMon<T> {
    inner: T,
    log: Arc<Mutex<Vec<(bool, Item)>>>,
}
impl<T: Unpin> Unpin for TMon<T> {}
impl<T, S> Sink<S> for TMon<T>
where
    T: Sink<S> + Unpin,
    S: Abstract,
{
    type Error = T::Error;
    fn poll_ready(mut self: Pin<&mut Self>, cx: &mut Context<'_>) -> Poll<Result<(), T::Error>> {
        Pin::new(&mut self.inner).poll_ready(cx)
    }
    fn start_send(mut self: Pin<&mut Self>, item: S) -> Result<(), T::Error> {
        let a = item.abs();
        let r = Pin::new(&mut self.inner).start_send(item);
        if r.is_ok() {
            self.log.lock().unwrap().push((true, a));
        }
        r
    }
    fn poll_flush(mut self: Pin<&mut Self>, cx: &mut Context<'_>) -> Poll<Result<(), T::Error>> {
        Pin::new(&mut self.inner).poll_flush(cx)
    }
    fn poll_close(mut self: Pin<&mut Self>, cx: &mut Context<'_>) -> Poll<Result<(), T::Error>> {
        Pin::new(&mut self.inner).poll_close(cx)
    }
}
impl<T, I, E> Stream for TMon<T>
where
    T: Stream<Item = Result<I, E>> + Unpin,
    I: Abstract,
{
    type Item = Result<I, E>;
    fn poll_next(mut self: Pin<&mut Self>, cx: &mut Context<'_>) -> Poll<Option<Self::Item>> {
        let r = Pin::new(&mut self.inner).poll_next(cx);
        if let Poll::Ready(Some(Ok(i))) = &r {
            self.log.lock().unwrap().push((false, i.abs()));
        }
        r
    }
}

#[derive(Clone, Debug, PartialEq)]
enum CallRes {
    Ok(String),
    Err(String),
    TimedOutLocally,
    Aborted,
}

pub fn run(seed: u64, tasks: usize, calls_per_task: usize, workers: usize) -> Outcome {
    let mut out = Outcome::default();
    // configuration diversity: in-flight limit, request buffer, transport kind, server-side limiter
    let mut cr = Rng::new(seed ^ 0x7C0F);
    let max_in_flight = *cr.pick(&[1usize, 2, 4, 64]);
    let req_buffer = *cr.pick(&[1usize, 2, 8]);
    let bounded: Option<usize> = *cr.pick(&[None, None, Some(1), Some(4)]);
    let limiter: Option<usize> = *cr.pick(&[None, None, Some(2), Some(16)]);
    out.desc = json!({"family": "S-threads", "seed": seed, "tasks": tasks, "calls_per_task": calls_per_task, "worker_threads": workers,
        "max_in_flight_requests": max_in_flight, "pending_request_buffer": req_buffer, "transport": format!("{:?}", bounded), "server_limit": limiter});
    let rt = tokio::runtime::Builder::new_multi_thread().worker_threads(workers).enable_time().build().unwrap();
    let log: Arc<Mutex<Vec<(bool, Item)>>> = Arc::new(Mutex::new(vec![]));
    let results: Arc<Mutex<Vec<(String, CallRes)>>> = Arc::new(Mutex::new(vec![]));
    let handled = Arc::new(AtomicU64::new(0));
    let started = Instant::now();
    let finished = rt.block_on(async {
        // erase the transport type behind boxed trait objects so that both kinds share the code below
        type BoxC = Pin<Box<dyn crate::threads::SendC>>;
        type BoxS = Pin<Box<dyn crate::threads::SendS>>;
        let (ct, st): (BoxC, BoxS) = match bounded {
            None => {
                let (c, s) = tarpc::transport::channel::unbounded::<Response<String>, ClientMessage<String>>();
                (Box::pin(crate::e2e::ErrBox(c)), Box::pin(crate::e2e::ErrBox(s)))
            }
            Some(n) => {
                let (c, s) = tarpc::transport::channel::bounded::<Response<String>, ClientMessage<String>>(n);
                (Box::pin(crate::e2e::ErrBox(c)), Box::pin(crate::e2e::ErrBox(s)))
            }
        };
        let ct = TMon { inner: ct, log: log.clone() };
        let handled2 = handled.clone();
        let base = BaseChannel::with_defaults(st);
        let serve_fn = tarpc::server::serve(move |_ctx, req: String| {
                let h = handled2.clone();
                async move {
                    let k = h.fetch_add(1, Ordering::Relaxed);
                    if k % 3 == 0 {
                        tokio::task::yield_now().await;
                    }
                    if k % 11 == 0 {
                        tokio::time::sleep(Duration::from_micros(300)).await;
                    }
                    Ok(format!("echo({req})"))
                }
            });
        let server_task = match limiter {
            None => tokio::spawn(base.execute(serve_fn).for_each(|f| async move {
                tokio::spawn(f);
            })),
            Some(l) => tokio::spawn(base.max_concurrent_requests(l).execute(serve_fn).for_each(|f| async move {
                tokio::spawn(f);
            })),
        };
        let mut cfg = client::Config::default();
        cfg.max_in_flight_requests = max_in_flight;
        cfg.pending_request_buffer = req_buffer;
        let nc = client::new::<String, String, _>(cfg, ct);
        let dispatch_task = tokio::spawn(nc.dispatch);
        let client = nc.client;
        let mut joins = vec![];
        for t in 0..tasks {
            let c = client.clone();
            let res = results.clone();
            let mut r = Rng::new(mix(seed, t as u64));
            joins.push(tokio::spawn(async move {
                for i in 0..calls_per_task {
                    let body = format!("t{t}c{i}");
                    let mut ctx = context::current();
                    ctx.deadline = Instant::now() + Duration::from_secs(30);
                    let how = r.below(10);
                    let outcome = if how < 6 {
                        match c.call(ctx, body.clone()).await {
                            Ok(v) => CallRes::Ok(v),
                            Err(e) => CallRes::Err(format!("{e}: {e:?}")),
                        }
                    } else if how < 9 {
                        let us = r.below(400) as u64;
                        match tokio::time::timeout(Duration::from_micros(us), c.call(ctx, body.clone())).await {
                            Ok(Ok(v)) => CallRes::Ok(v),
                            Ok(Err(e)) => CallRes::Err(format!("{e}: {e:?}")),
                            Err(_) => CallRes::TimedOutLocally,
                        }
                    } else {
                        let c2 = c.clone();
                        let b2 = body.clone();
                        let h = tokio::spawn(async move { c2.call(ctx, b2).await });
                        if r.chance(1, 2) {
                            tokio::task::yield_now().await;
                        }
                        h.abort();
                        match h.await {
                            Ok(Ok(v)) => CallRes::Ok(v),
                            Ok(Err(e)) => CallRes::Err(format!("{e}: {e:?}")),
                            Err(_) => CallRes::Aborted,
                        }
                    };
                    res.lock().unwrap().push((body, outcome));
                }
            }));
        }
        let all = async {
            for j in joins {
                let _ = j.await;
            }
            drop(client);
            let d = dispatch_task.await;
            (d, server_task)
        };
        match tokio::time::timeout(Duration::from_secs(60), all).await {
            Ok((d, server_task)) => {
                server_task.abort();
                Some(matches!(d, Ok(Ok(()))))
            }
            Err(_) => None,
        }
    });
    match finished {
        None => {
            out.inconclusive = Some("S-threads watchdog (60 s): calls or the dispatch did not finish".into());
            return out;
        }
        Some(false) => out.viol("C10", "threads-dispatch-error", "the dispatch did not complete Ok(()) after all handles were dropped".into()),
        Some(true) => {}
    }
    let log = log.lock().unwrap();
    let results = results.lock().unwrap();
    // wire maps
    let mut id_of: HashMap<String, u64> = HashMap::new();
    let mut req_pos: HashMap<u64, usize> = HashMap::new();
    let mut cancels: HashMap<u64, Vec<usize>> = HashMap::new();
    for (i, (send, item)) in log.iter().enumerate() {
        if !*send {
            continue;
        }
        match item {
            Item::Req { id, body, .. } => {
                if id_of.insert(body.clone(), *id).is_some() {
                    out.viol("C01", "request-sent-twice", format!("request {body} written twice"));
                }
                if req_pos.insert(*id, i).is_some() {
                    out.viol("C01", "wire-id-reused", format!("wire id {id} used by two requests (under real contention)"));
                }
            }
            Item::Cancel { id, .. } => cancels.entry(*id).or_default().push(i),
            _ => {}
        }
    }
    let mut oks = 0u64;
    let mut abandoned = 0u64;
    for (body, r) in results.iter() {
        match r {
            CallRes::Ok(v) => {
                oks += 1;
                if *v != format!("echo({body})") {
                    out.viol("C01", "foreign-reply", format!("call {body} completed with {v}"));
                }
                if let Some(id) = id_of.get(body) {
                    if cancels.contains_key(id) {
                        out.viol("C03", "cancel-for-resolved-call", format!("Cancel written for call {body} (id {id}) which resolved normally"));
                    }
                } else {
                    out.viol("C01", "reply-without-request", format!("call {body} got a reply but no request was written"));
                }
            }
            CallRes::TimedOutLocally | CallRes::Aborted => abandoned += 1,
            CallRes::Err(e) => {
                if limiter.is_some() && e.contains("throttled") {
                    out.count("threads_throttled", 1);
                } else {
                    out.viol("C02", "threads-unexpected-error", format!("call {body} failed: {e}"));
                }
            }
        }
    }
    for (id, pos) in cancels.iter() {
        if pos.len() > 1 {
            out.viol("C03", "cancel-twice", format!("Cancel for id {id} written {} times", pos.len()));
        }
        match req_pos.get(id) {
            None => out.viol("C03", "cancel-without-request", format!("Cancel for id {id} written but no Request")),
            Some(rp) => {
                if *rp > pos[0] {
                    out.viol("C03", "cancel-before-request", format!("Cancel for id {id} written before its Request"));
                }
            }
        }
    }
    // abandoned + transmitted + no reply consumed => cancel must have been written (the dispatch ran to completion)
    let replied: std::collections::HashSet<u64> = log.iter().filter(|(s, _)| !*s).map(|(_, i)| i.id()).collect();
    for (body, r) in results.iter() {
        if matches!(r, CallRes::TimedOutLocally | CallRes::Aborted) {
            if let Some(id) = id_of.get(body) {
                if !replied.contains(id) && !cancels.contains_key(id) {
                    out.viol("C03", "no-cancel-after-completion", format!("abandoned call {body} (id {id}) was transmitted, never answered, and the dispatch completed without cancelling it"));
                }
            }
        }
    }
    out.count("threads_calls", results.len() as u64);
    out.count("threads_ok", oks);
    out.count("threads_abandoned", abandoned);
    out.count("threads_cancels_on_wire", cancels.len() as u64);
    out.cell("threads.run");
    if !cancels.is_empty() {
        out.cell("threads.cancel-on-wire");
    }
    for p in ["C01", "C02", "C03", "C11"] {
        out.nontrivial(p);
    }
    out.sig = mix(seed, cancels.len() as u64 * 1_000_003 + oks);
    out.trace = vec![format!("S-threads: {} calls ({} ok, {} abandoned), {} cancels on the wire, {:?} elapsed", results.len(), oks, abandoned, cancels.len(), started.elapsed())];
    out
}

pub trait SendC: Sink<ClientMessage<String>, Error = crate::e2e::AnyErr> + Stream<Item = Result<Response<String>, crate::e2e::AnyErr>> + Send {}
impl<T> SendC for T where T: Sink<ClientMessage<String>, Error = crate::e2e::AnyErr> + Stream<Item = Result<Response<String>, crate::e2e::AnyErr>> + Send {}
pub trait SendS: Sink<Response<String>, Error = crate::e2e::AnyErr> + Stream<Item = Result<ClientMessage<String>, crate::e2e::AnyErr>> + Send {}
impl<T> SendS for T where T: Sink<Response<String>, Error = crate::e2e::AnyErr> + Stream<Item = Result<ClientMessage<String>, crate::e2e::AnyErr>> + Send {}
