//! S-client: the real `client::new` Channel + RequestDispatch against a harness-played server,
//! under a seeded poll-granular scheduler on tokio's paused clock.
//! Oracles: C01 C02 C03 C05 C09(client) C10(client) C11(client) C14(client) C16(local deadlines) C18(wire).
use crate::common::*;
use crate::mock::*;
use futures::{prelude::*, task::*};
use serde_json::json;
use std::{
    cell::RefCell,
    collections::{BTreeMap, HashMap},
    panic::{catch_unwind, AssertUnwindSafe},
    pin::Pin,
    rc::Rc,
    time::{Duration, Instant},
};
use tarpc::{
    client::{self, RpcError},
    context, trace, ChannelError, ClientMessage, Response, ServerError,
};

pub type CMock = Mock<ClientMessage<String>, Response<String>>;
type Dispatch = client::RequestDispatch<String, String, CMock>;
type CallFut = Pin<Box<dyn Future<Output = Result<String, RpcError>>>>;

pub const YEAR_MS: u64 = 365 * 24 * 3600 * 1000;

#[derive(Clone, Copy, Debug, PartialEq)]
pub enum Dl {
    /// deadline already in the past when the call is made
    Past,
    Ms(u64),
    /// beyond the supported span; only "no crash" is claimed (C16)
    Beyond(u64),
}
impl Dl {
    pub fn d_ms(self) -> u64 {
        match self {
            Dl::Past => 0,
            Dl::Ms(n) => n,
            Dl::Beyond(s) => s.saturating_mul(1000).min(1 << 60),
        }
    }
}

#[derive(Clone, Copy, Debug, PartialEq)]
pub enum Order {
    InOrder,
    Reversed,
    Random,
}

#[derive(Clone, Debug)]
pub enum Act {
    PollDispatch,
    PollCaller(usize),
    StartCall(Dl),
    /// abandon caller i; with Some(p) the dispatch is polled from inside the guard's drop at yield point p (0 entry, 1 mid, 2 exit)
    Abandon(usize, Option<u8>),
    Deliver(usize),
    OpenFlush,
    CloseFlush,
    FreeSlot,
    DropHandle,
    Eof,
    Advance(u64),
    RealSleep(u64),
    /// script only: poll woken tasks until none is runnable
    RunIdle,
    /// script only: inject a reply for the k-th transmitted request (by wire order), ok/err
    ReplyTo(usize),
}

#[derive(Clone, Debug)]
pub struct Cfg {
    pub seed: u64,
    pub model: Model,
    pub cap: usize,
    pub max_in_flight: usize,
    pub buffer: usize,
    pub ncalls: usize,
    pub fault: Option<(Op, usize)>,
    pub deadlines: Vec<Dl>,
    pub order: Order,
    pub never_pct: u64,
    pub dup_pct: u64,
    pub err_pct: u64,
    pub stray_pct: u64,
    pub isolated_strays: bool,
    pub control_polls: bool,
    pub abandon_pct: u64,
    pub hooks: bool,
    pub real_delay: bool,
    pub eof_pct: u64,
    pub early_drop_handle: bool,
    pub block_transport: bool,
    pub script: Vec<Act>,
    pub label: &'static str,
    pub verbose: bool,
    pub extreme_deadlines: bool,
}
impl Cfg {
    pub fn base(seed: u64) -> Cfg {
        Cfg {
            seed,
            model: Model::Coupled,
            cap: 2,
            max_in_flight: 2,
            buffer: 2,
            ncalls: 4,
            fault: None,
            deadlines: vec![Dl::Ms(50), Dl::Ms(200), Dl::Ms(10_000)],
            order: Order::Random,
            never_pct: 10,
            dup_pct: 10,
            err_pct: 10,
            stray_pct: 10,
            isolated_strays: true,
            control_polls: true,
            abandon_pct: 30,
            hooks: true,
            real_delay: false,
            eof_pct: 0,
            early_drop_handle: false,
            block_transport: true,
            script: vec![],
            label: "random",
            verbose: false,
            extreme_deadlines: false,
        }
    }
    pub fn random(seed: u64) -> Cfg {
        let mut r = Rng::new(seed ^ 0xC11E);
        let mut c = Cfg::base(seed);
        c.model = if r.chance(1, 2) {
            Model::Coupled
        } else {
            Model::Independent
        };
        c.cap = *r.pick(&[1, 1, 2, 3, 8]);
        c.max_in_flight = *r.pick(&[1, 1, 2, 3, 8]);
        c.buffer = *r.pick(&[1, 1, 2, 3, 8]);
        c.ncalls = 1 + r.below(8);
        if r.chance(1, 12) {
            c.ncalls = 5 + r.below(28);
        }
        c.order = *r.pick(&[Order::InOrder, Order::Reversed, Order::Random]);
        let all = [
            Dl::Past,
            Dl::Ms(0),
            Dl::Ms(1),
            Dl::Ms(3),
            Dl::Ms(5),
            Dl::Ms(20),
            Dl::Ms(50),
            Dl::Ms(200),
            Dl::Ms(10_000),
            Dl::Ms(3 * 3600 * 1000),
            Dl::Ms(YEAR_MS),
            // beyond the supported span: clamped, still tracked with a timer, cancellable
            Dl::Beyond(2 * 366 * 24 * 3600),
        ];
        let k = 1 + r.below(4);
        c.deadlines = (0..k).map(|_| *r.pick(&all)).collect();
        if r.chance(1, 2) {
            c.deadlines.push(Dl::Ms(10_000));
        }
        c.abandon_pct = *r.pick(&[0, 10, 30, 60]);
        c.never_pct = *r.pick(&[0, 10, 30]);
        c.dup_pct = *r.pick(&[0, 10, 30]);
        c.err_pct = *r.pick(&[0, 10]);
        c.stray_pct = *r.pick(&[0, 10, 30]);
        c.hooks = r.chance(3, 4);
        c.eof_pct = *r.pick(&[0, 0, 0, 15]);
        c.early_drop_handle = r.chance(1, 4);
        c.block_transport = r.chance(3, 4);
        c.real_delay = r.chance(1, 40);
        c
    }
    pub fn to_json(&self) -> serde_json::Value {
        json!({
            "family": "S-client", "label": self.label, "seed": self.seed,
            "model": format!("{:?}", self.model), "cap": self.cap,
            "max_in_flight_requests": self.max_in_flight, "pending_request_buffer": self.buffer,
            "ncalls": self.ncalls, "fault": self.fault.map(|(o,k)| format!("{}#{}", o.name(), k)),
            "deadlines": format!("{:?}", self.deadlines), "reply_order": format!("{:?}", self.order),
            "never/dup/err/stray_pct": [self.never_pct, self.dup_pct, self.err_pct, self.stray_pct],
            "abandon_pct": self.abandon_pct, "guard_hooks": self.hooks, "real_delay": self.real_delay,
            "eof_pct": self.eof_pct, "script": format!("{:?}", self.script),
        })
    }
}

#[derive(Debug, Clone, PartialEq)]
pub enum Res {
    Pending,
    Ok(String),
    ServerErr(String),
    Deadline,
    Shutdown,
    Channel(String),
    Send,
    Abandoned,
}
impl Res {
    fn kind(&self) -> &'static str {
        match self {
            Res::Pending => "pending",
            Res::Ok(_) => "ok",
            Res::ServerErr(_) => "servererr",
            Res::Deadline => "deadline",
            Res::Shutdown => "shutdown",
            Res::Channel(_) => "channel",
            Res::Send => "send",
            Res::Abandoned => "abandoned",
        }
    }
}

struct Caller {
    fut: Option<CallFut>,
    flag: std::sync::Arc<WakeFlag>,
    body: String,
    dl: Dl,
    d_ms: u64,
    r_c: Instant,
    v_c: u64,
    trace: trace::Context,
    res: Res,
    /// virtual ms / step at which the caller task was *woken* after its last Pending (stamped lazily)
    v_res: u64,
    step_res: u64,
    polls: usize,
    started_step: u64,
    abandon_after: Option<u64>,
    started_after_dispatch_end: bool,
    /// abandonment stage, for coverage
    abandon_stage: Option<&'static str>,
}

struct Planned {
    id: u64,
    body: String,
    err: bool,
    stray: Option<&'static str>,
}

fn classify(r: Result<String, RpcError>) -> Res {
    match r {
        Ok(b) => Res::Ok(b),
        Err(RpcError::Server(e)) => Res::ServerErr(e.detail),
        Err(RpcError::DeadlineExceeded) => Res::Deadline,
        Err(RpcError::Shutdown) => Res::Shutdown,
        Err(RpcError::Channel(e)) => Res::Channel(
            match e {
                ChannelError::Read(_) => "Read",
                ChannelError::Ready(_) => "Ready",
                ChannelError::Write(_) => "Write",
                ChannelError::Flush(_) => "Flush",
                ChannelError::Close(_) => "Close",
            }
            .to_string(),
        ),
        Err(RpcError::Send(_)) => Res::Send,
    }
}

fn variant_name(e: &ChannelError<TErr>) -> &'static str {
    match e {
        ChannelError::Read(_) => "Read",
        ChannelError::Ready(_) => "Ready",
        ChannelError::Write(_) => "Write",
        ChannelError::Flush(_) => "Flush",
        ChannelError::Close(_) => "Close",
    }
}

pub fn run(cfg: &Cfg) -> Outcome {
    let rt = tokio::runtime::Builder::new_current_thread()
        .enable_time()
        .start_paused(true)
        .build()
        .unwrap();
    let mut out = Outcome::default();
    out.desc = cfg.to_json();
    let wall0 = Instant::now();
    rt.block_on(run_inner(cfg, &mut out));
    if wall0.elapsed() > Duration::from_secs(120) && out.viols.is_empty() {
        out.inconclusive = Some("scenario wall-clock watchdog (120 s)".into());
    }
    out
}

struct World {
    st: Rc<RefCell<State<Response<String>>>>,
    dispatch: Rc<RefCell<Option<Pin<Box<Dispatch>>>>>,
    dflag: std::sync::Arc<WakeFlag>,
    dispatch_result: Rc<RefCell<Option<Result<(), String>>>>,
    dispatch_end_step: Rc<RefCell<Option<u64>>>,
    panics: Rc<RefCell<Vec<String>>>,
    lens_log: Rc<RefCell<Vec<(u64, usize, usize)>>>,
    step: Rc<RefCell<u64>>,
    ev: Rc<RefCell<Vec<String>>>,
}
impl World {
    /// one poll of the dispatch task (if alive)
    fn poll_dispatch(&self, nested: bool) {
        let mut slot = self.dispatch.borrow_mut();
        let Some(d) = slot.as_mut() else { return };
        self.dflag.clear();
        let step = *self.step.borrow();
        self.st.borrow_mut().begin_epoch(step);
        let w = waker(self.dflag.clone());
        let r = catch_unwind(AssertUnwindSafe(|| {
            poll_unconstrained(&mut Context::from_waker(&w), |cx| d.as_mut().poll(cx))
        }));
        match r {
            Err(p) => {
                let msg = panic_msg(&p);
                self.ev
                    .borrow_mut()
                    .push(format!("  dispatch PANIC {msg}"));
                self.panics.borrow_mut().push(msg);
                *slot = None;
                *self.dispatch_result.borrow_mut() = Some(Err("panic".into()));
                *self.dispatch_end_step.borrow_mut() = Some(step);
            }
            Ok(Poll::Ready(res)) => {
                let res = res.map_err(|e| variant_name(&e).to_string());
                self.ev.borrow_mut().push(format!(
                    "  dispatch{} -> Ready({:?})",
                    if nested { "(nested)" } else { "" },
                    res
                ));
                // (a dispatch that had begun to close but then stopped because the peer ended the
                // read side took the "stops promptly" exit of C10, not the orderly one: the pending
                // close, and with it the flush, is legitimately abandoned)
                if res.is_ok() && self.st.borrow().close_called && !self.st.borrow().eof_seen {
                    self.st.borrow_mut().on_task_finished_orderly();
                }
                *self.dispatch_result.borrow_mut() = Some(res);
                *self.dispatch_end_step.borrow_mut() = Some(step);
                *slot = None; // dropped immediately, as a runtime would
            }
            Ok(Poll::Pending) => {
                let l = d.verif_in_flight();
                self.lens_log.borrow_mut().push((step, l.entries, l.timers));
                self.st.borrow_mut().on_task_pending();
            }
        }
    }
}

pub fn panic_msg(p: &Box<dyn std::any::Any + Send>) -> String {
    if let Some(s) = p.downcast_ref::<&str>() {
        s.to_string()
    } else if let Some(s) = p.downcast_ref::<String>() {
        s.clone()
    } else {
        "<non-string panic>".into()
    }
}

async fn run_inner(cfg: &Cfg, out: &mut Outcome) {
    let mut rng = Rng::new(cfg.seed);
    let t0 = tokio::time::Instant::now();
    let real0 = Instant::now();
    let vms = move || t0.elapsed().as_millis() as u64;
    let (mock, st) = new_mock::<ClientMessage<String>, Response<String>>(
        "client",
        cfg.model,
        cfg.cap,
        cfg.fault,
    );
    let mut ccfg = client::Config::default();
    ccfg.max_in_flight_requests = cfg.max_in_flight;
    ccfg.pending_request_buffer = cfg.buffer;
    let nc = client::new::<String, String, _>(ccfg, mock);
    let w = World {
        st: st.clone(),
        dispatch: Rc::new(RefCell::new(Some(Box::pin(nc.dispatch)))),
        dflag: flag(),
        dispatch_result: Rc::new(RefCell::new(None)),
        dispatch_end_step: Rc::new(RefCell::new(None)),
        panics: Rc::new(RefCell::new(vec![])),
        lens_log: Rc::new(RefCell::new(vec![])),
        step: Rc::new(RefCell::new(0)),
        ev: Rc::new(RefCell::new(vec![])),
    };
    let mut handle = Some(nc.client);
    let mut callers: Vec<Caller> = vec![];
    let mut to_start = cfg.ncalls;
    let mut step: u64 = 0;
    let mut seen = 0usize; // index into st.sent examined by the peer
    let mut pool: Vec<Planned> = vec![];
    let mut injected: HashMap<u64, Vec<String>> = HashMap::new();
    let mut reply_seq = 0u64;
    let mut inj_seq = 0usize;
    let mut wire_reqs: Vec<u64> = vec![]; // ids in wire order (visible)
    let mut script: std::collections::VecDeque<Act> = cfg.script.iter().cloned().collect();
    let mut eof_sent = false;
    let mut nested_polls = 0u64;
    let mut isolated = 0u64;
    let mut control_polls = 0u64;
    let mut final_phase = 0;
    let mut max_deadline_v: u64 = 0;
    let mut late_calls_started = 0;
    let mut idle_points = 0u64;
    let mut last_idle_key = (usize::MAX, 0usize, 0usize, 0u64);
    // weights per category: dispatch, caller, start, abandon, deliver, transport, drop/eof, clock
    let weight_set = [0u64, 1, 1, 1, 2, 4, 16];
    let mut weights: [u64; 8] = [1; 8];
    let redraw = |rng: &mut Rng, weights: &mut [u64; 8]| {
        for x in weights.iter_mut() {
            *x = *rng.pick(&weight_set);
        }
        weights[7] = *rng.pick(&[1, 1, 2, 4]);
    };
    if rng.chance(2, 3) {
        redraw(&mut rng, &mut weights);
    }
    let mut change_points: Vec<u64> = (0..rng.below(3)).map(|_| 5 + rng.below(60) as u64).collect();

    macro_rules! ev {
        ($($a:tt)*) => { w.ev.borrow_mut().push(format!($($a)*)) };
    }

    loop {
        step += 1;
        *w.step.borrow_mut() = step;
        set_vnow(vms(), step);
        if step > 200_000 {
            out.inconclusive = Some("scenario step limit".into());
            break;
        }
        if change_points.contains(&step) {
            redraw(&mut rng, &mut weights);
            change_points.retain(|s| *s != step);
        }
        // ---- the peer looks at what became visible on the wire and plans replies
        {
            let s = st.borrow();
            while seen < s.sent.len() {
                let it = &s.sent[seen];
                if !it.visible || it.write_failed {
                    if it.write_failed {
                        seen += 1;
                        continue;
                    }
                    break; // not yet flushed; items become visible in order
                }
                if let Item::Req { id, .. } = &it.item {
                    wire_reqs.push(*id);
                    if cfg.script.is_empty() || !cfg.script.iter().any(|a| matches!(a, Act::ReplyTo(_))) {
                        let k = rng.below(100) as u64;
                        let mut mk = |id: u64, err: bool, stray: Option<&'static str>| {
                            reply_seq += 1;
                            Planned {
                                id,
                                body: if stray.is_some() {
                                    format!("stray-r{}-for-{}", reply_seq, id)
                                } else {
                                    format!("r{}-for-{}", reply_seq, id)
                                },
                                err,
                                stray,
                            }
                        };
                        if k >= cfg.never_pct {
                            let err = rng.below(100) < cfg.err_pct as usize;
                            pool.push(mk(*id, err, None));
                            if rng.below(100) < cfg.dup_pct as usize {
                                pool.push(mk(*id, false, Some("duplicate")));
                            }
                        }
                        if rng.below(100) < cfg.stray_pct as usize {
                            let sid = match rng.below(3) {
                                0 => 1_000_000 + *id,
                                1 => u64::MAX,
                                _ => u64::MAX / 2 + *id,
                            };
                            pool.push(mk(sid, false, Some("unknown-id")));
                        }
                    }
                }
                seen += 1;
            }
        }
        // ---- enabled actions
        let dispatch_alive = w.dispatch.borrow().is_some();
        let mut acts: Vec<(usize, Act)> = vec![]; // (category, act)
        if dispatch_alive && w.dflag.is_woken() {
            acts.push((0, Act::PollDispatch));
        }
        for (i, c) in callers.iter().enumerate() {
            if c.fut.is_some() {
                if c.flag.is_woken() {
                    acts.push((1, Act::PollCaller(i)));
                }
                if let Some(a) = c.abandon_after {
                    if step >= c.started_step + a {
                        let hook = if cfg.hooks && dispatch_alive && rng.chance(1, 2) {
                            Some(rng.below(3) as u8)
                        } else {
                            None
                        };
                        acts.push((3, Act::Abandon(i, hook)));
                    }
                }
            }
        }
        let runnable = !acts.is_empty() && acts.iter().any(|(c, _)| *c <= 1);
        if to_start > 0 && handle.is_some() {
            let dl = *rng.pick(&cfg.deadlines);
            acts.push((2, Act::StartCall(dl)));
        } else if !dispatch_alive && handle.is_some() && late_calls_started < 2 && to_start == 0 {
            // later calls must fail fast
            acts.push((2, Act::StartCall(Dl::Ms(10_000))));
        }
        if !eof_sent {
            let n = pool.len();
            match cfg.order {
                Order::InOrder => {
                    if n > 0 {
                        acts.push((4, Act::Deliver(0)));
                    }
                }
                Order::Reversed => {
                    if n > 0 {
                        acts.push((4, Act::Deliver(n - 1)));
                    }
                }
                Order::Random => {
                    for _ in 0..n.min(2) {
                        acts.push((4, Act::Deliver(rng.below(n))));
                    }
                }
            }
        }
        {
            let s = st.borrow();
            match s.model {
                Model::Coupled => {
                    if !s.flush_open {
                        acts.push((5, Act::OpenFlush));
                    } else if cfg.block_transport && !s.close_called && rng.chance(1, 8) && final_phase == 0 {
                        acts.push((5, Act::CloseFlush));
                    }
                }
                Model::Independent => {
                    if s.slots < s.cap {
                        acts.push((5, Act::FreeSlot));
                    }
                }
            }
        }
        let all_started = to_start == 0;
        if handle.is_some() && all_started && dispatch_alive && (cfg.early_drop_handle || final_phase > 0) && rng.chance(1, 4) {
            acts.push((6, Act::DropHandle));
        }
        if cfg.eof_pct > 0 && !eof_sent && dispatch_alive && rng.below(100) < cfg.eof_pct as usize / 3 + 1 {
            acts.push((6, Act::Eof));
        }
        let env_enabled = acts
            .iter()
            .any(|(c, a)| *c >= 2 && !matches!(a, Act::CloseFlush));
        // ---- idle point: no task runnable
        if !runnable {
            idle_points += 1;
            // long runs: evaluate the (linear-cost) idle oracles at a sample of the idle points
            let stride = (cfg.ncalls as u64 / 40).max(1);
            let key = {
                let s = st.borrow();
                (s.sent.len(), s.recv.len(), callers.iter().filter(|c| c.fut.is_none()).count(), vms())
            };
            if key != last_idle_key && idle_points % stride == 0 {
                last_idle_key = key;
                idle_oracles(cfg, &w, &st, &callers, &handle, step, vms(), real0, out);
            }
            // unsolicited control poll (C02): at an idle point a poll nobody asked for must not
            // make observable progress; if it does, some enabling event failed to wake the dispatch
            let mut control_clean = true;
            let want_iso = cfg.isolated_strays && cfg.fault.is_none() && dispatch_alive && !eof_sent && script.is_empty() && rng.chance(1, 6);
            // (an extra poll would itself consume the k-th transport call of a pending fault plan)
            let fault_pending = cfg.fault.is_some() && st.borrow().fault_fired.is_none();
            // (after a fault that the dispatch survives, every idle point gets one: C09's "none hangs")
            let after_fault = cfg.fault.is_some() && matches!(st.borrow().fault_fired, Some((op, _)) if op != Op::Eof);
            if cfg.control_polls && !fault_pending && dispatch_alive && script.is_empty() && (want_iso || rng.chance(1, 4) || after_fault) {
                let before_sent = st.borrow().sent.len();
                let before_recv = st.borrow().recv.len();
                let before_wakes: Vec<usize> = callers
                    .iter()
                    .map(|c| c.flag.count.load(std::sync::atomic::Ordering::SeqCst))
                    .collect();
                let before_lens = w.dispatch.borrow().as_ref().map(|d| d.verif_in_flight());
                ev!("{}@{} ControlPoll", step, vms());
                w.poll_dispatch(false);
                control_polls += 1;
                let after_lens = w.dispatch.borrow().as_ref().map(|d| d.verif_in_flight());
                let s = st.borrow();
                let woke = callers.iter().enumerate().any(|(i, c)| {
                    c.flag.count.load(std::sync::atomic::Ordering::SeqCst) != before_wakes[i]
                });
                if s.sent.len() != before_sent || s.recv.len() != before_recv || woke || (before_lens != after_lens && after_lens.is_some()) || w.dispatch.borrow().is_none() {
                    control_clean = false;
                    out.viol(
                        "C02",
                        "progress-on-unsolicited-poll",
                        format!(
                            "at a clock-stopped idle point (step {step}, {}ms) a poll nobody asked for made the dispatch progress (writes {}->{}, reads {}->{}, tracked {:?}->{:?}, caller woken={woke}): an enabling event failed to wake it",
                            vms(), before_sent, s.sent.len(), before_recv, s.recv.len(), before_lens, after_lens
                        ),
                    );
                    if let Some((op, k)) = s.fault_fired {
                        if op != Op::Eof {
                            // C09 "none hangs ... failing to write one request fails only that call":
                            // after the fault the dispatch sat on work until somebody else polled it
                            out.viol(
                                "C09",
                                "stalled-after-fault",
                                format!("after transport fault ({op:?}, {k}) the dispatch went idle with work it could do (an unsolicited poll at step {step} wrote {} items, read {}, tracked {:?}->{:?}): later calls wait for an unrelated wake-up", s.sent.len() - before_sent, s.recv.len() - before_recv, before_lens, after_lens),
                            );
                        }
                    }
                }
            }
            // isolated stray delivery (C01): only stimulus, clock stopped
            if want_iso && control_clean && w.dispatch.borrow().is_some() && !w.dflag.is_woken() {
                if let Some((sid, kind)) = pick_stray(&mut rng, &st, &callers, &injected) {
                    isolated += 1;
                    let before_sent = st.borrow().sent.len();
                    let before_res: Vec<Res> = callers.iter().map(|c| c.res.clone()).collect();
                    let before_wakes: Vec<usize> = callers
                        .iter()
                        .map(|c| c.flag.count.load(std::sync::atomic::Ordering::SeqCst))
                        .collect();
                    let before_lens = w.dispatch.borrow().as_ref().map(|d| d.verif_in_flight());
                    reply_seq += 1;
                    let body = format!("stray{}-{}", reply_seq, kind);
                    injected.entry(sid).or_default().push(body.clone());
                    inj_seq += 1;
                    st.borrow_mut().env_inject(
                        Response {
                            request_id: sid,
                            message: Ok(body),
                        },
                        inj_seq,
                    );
                    ev!("{}@{} IsolatedStray id={} kind={}", step, vms(), sid, kind);
                    let mut guard = 0;
                    while w.dflag.is_woken() && w.dispatch.borrow().is_some() && guard < 10 {
                        w.poll_dispatch(false);
                        guard += 1;
                    }
                    let after_lens = w.dispatch.borrow().as_ref().map(|d| d.verif_in_flight());
                    let s = st.borrow();
                    if s.sent.len() != before_sent {
                        out.viol("C01", "stray-reply-caused-write", format!("a reply for {kind} id {sid} made the dispatch write {:?}", s.sent.last().map(|x| x.item.short())));
                    }
                    if before_lens != after_lens {
                        out.viol("C01", "stray-reply-changed-state", format!("a reply for {kind} id {sid} changed tracked state {before_lens:?} -> {after_lens:?}"));
                    }
                    for (i, c) in callers.iter().enumerate() {
                        if c.res != before_res[i] || c.flag.count.load(std::sync::atomic::Ordering::SeqCst) != before_wakes[i] {
                            out.viol("C01", "stray-reply-disturbed-call", format!("a reply for {kind} id {sid} woke/resolved call {}", c.body));
                        }
                    }
                    if w.dispatch.borrow().is_none() {
                        out.viol("C01", "stray-reply-ended-dispatch", format!("a reply for {kind} id {sid} ended the dispatch: {:?}", w.dispatch_result.borrow()));
                    }
                    out.cell(format!("C01.isolated-stray.{kind}"));
                    continue;
                }
            }
        }
        // ---- choose
        let act: Act;
        if let Some(front) = script.front().cloned() {
            // scripted prefix
            match front {
                Act::RunIdle => {
                    if runnable {
                        let r: Vec<&(usize, Act)> = acts.iter().filter(|(c, _)| *c <= 1).collect();
                        act = r[rng.below(r.len())].1.clone();
                    } else {
                        script.pop_front();
                        continue;
                    }
                }
                a => {
                    script.pop_front();
                    act = a;
                }
            }
        } else {
            if !runnable && !env_enabled {
                // clock-stopped quiescence
                let all_done = callers.iter().all(|c| c.fut.is_none()) && all_started;
                if handle.is_some() && all_started && dispatch_alive && callers.iter().all(|c| c.fut.is_none()) {
                    act = Act::DropHandle;
                } else if all_done && (!dispatch_alive) && (handle.is_none() || late_calls_started >= 2 || true) {
                    break;
                } else {
                    final_phase += 1;
                    if final_phase > 3 * cfg.ncalls + 30 {
                        break;
                    }
                    let now = vms();
                    // walk through the pending timers in order (armed at transmission)
                    let next_dl = {
                        let s = st.borrow();
                        let ids = id_map(&s);
                        callers
                            .iter()
                            .filter(|c| c.fut.is_some())
                            .filter_map(|c| ids.get(&c.body).map(|i| i.v_arm + c.d_ms.min(YEAR_MS) + 3))
                            .filter(|d| *d > now)
                            .min()
                    };
                    let _ = max_deadline_v;
                    let target = match next_dl {
                        Some(d) => d - now,
                        None => 1000,
                    };
                    act = Act::Advance(target.max(1));
                }
            } else {
                let mut cands = acts.clone();
                // clock movement
                if rng.chance(1, 5) || !runnable {
                    let now = vms();
                    let next_dl = callers
                        .iter()
                        .filter(|c| c.fut.is_some())
                        .map(|c| c.v_c + c.d_ms)
                        .filter(|d| *d + 3 > now)
                        .min();
                    let mut choices = vec![1u64, 1, 2, 5, 10, 50, 500];
                    if let Some(d) = next_dl {
                        for delta in [-1i64, 0, 1, 2] {
                            let t = d as i64 + delta - now as i64;
                            // year-long jumps are left to the final phase (DESIGN.md, finding F7)
                            if t > 0 && t < 4 * 3600 * 1000 {
                                choices.push(t as u64);
                                choices.push(t as u64);
                            }
                        }
                    }
                    cands.push((7, Act::Advance(*rng.pick(&choices))));
                }
                if cfg.real_delay && rng.chance(1, 6) && callers.iter().any(|c| c.fut.is_some()) {
                    cands.push((7, Act::RealSleep(5 + rng.below(20) as u64)));
                }
                // weighted choice; a zero weight starves a category only while some other
                // non-clock category can run
                let non_clock: u64 = cands.iter().filter(|(c, _)| *c != 7).map(|(c, _)| weights[*c]).sum();
                let mut wts = weights;
                if non_clock == 0 {
                    for x in wts.iter_mut().take(7) {
                        *x = 1;
                    }
                }
                let weights = wts;
                let total: u64 = cands.iter().map(|(c, _)| weights[*c]).sum();
                if total == 0 {
                    act = cands[rng.below(cands.len())].1.clone();
                } else {
                    let mut x = rng.next() % total;
                    let mut chosen = cands[0].1.clone();
                    for (c, a) in cands.iter() {
                        if x < weights[*c] {
                            chosen = a.clone();
                            break;
                        }
                        x -= weights[*c];
                    }
                    act = chosen;
                }
            }
        }
        // ---- execute
        match &act {
            Act::PollDispatch => {}
            Act::PollCaller(_) => {}
            a => ev!("{}@{} {:?}", step, vms(), a),
        }
        match act {
            Act::RunIdle => {}
            Act::PollDispatch => {
                ev!("{}@{} PollDispatch", step, vms());
                w.poll_dispatch(false);
            }
            Act::PollCaller(i) => {
                let c = &mut callers[i];
                if c.fut.is_none() {
                    continue;
                }
                // the instant at which the caller was *woken* (not the instant of this poll)
                let v_wake = c.flag.woke_ms.load(std::sync::atomic::Ordering::SeqCst);
                let s_wake = c.flag.woke_step.load(std::sync::atomic::Ordering::SeqCst);
                c.flag.clear();
                c.polls += 1;
                let wk = waker(c.flag.clone());
                let p = catch_unwind(AssertUnwindSafe(|| {
                    let f = c.fut.as_mut().unwrap();
                    poll_unconstrained(&mut Context::from_waker(&wk), |cx| f.as_mut().poll(cx))
                }));
                match p {
                    Err(pn) => {
                        let m = panic_msg(&pn);
                        ev!("  caller {} PANIC {}", i, m);
                        w.panics.borrow_mut().push(format!("call: {m}"));
                        c.fut = None;
                        c.res = Res::Abandoned;
                    }
                    Ok(Poll::Ready(r)) => {
                        c.fut = None;
                        c.v_res = v_wake;
                        c.step_res = s_wake;
                        c.res = classify(r);
                        ev!("{}@{} caller {} -> {:?}", step, vms(), i, c.res);
                    }
                    Ok(Poll::Pending) => {}
                }
            }
            Act::StartCall(dl) => {
                if to_start > 0 {
                    to_start -= 1;
                } else {
                    late_calls_started += 1;
                }
                let n = callers.len();
                let body = format!("c{}", n);
                let ch = handle.as_ref().unwrap().clone();
                let mut ctx = context::current();
                let r_c = Instant::now();
                ctx.deadline = match dl {
                    Dl::Past => r_c.checked_sub(Duration::from_millis(5)).unwrap_or(r_c),
                    Dl::Ms(m) => r_c + Duration::from_millis(m),
                    Dl::Beyond(secs) => r_c
                        .checked_add(Duration::from_secs(secs))
                        .unwrap_or_else(|| far_instant(r_c)),
                };
                let mut tb = [0u8; 16];
                tb[..8].copy_from_slice(&(0xABCD_0000u64 + n as u64).to_le_bytes());
                tb[8..].copy_from_slice(&cfg.seed.to_le_bytes());
                ctx.trace_context.trace_id = trace::TraceId::from(u128::from_le_bytes(tb));
                if n % 5 == 4 {
                    // boundary trace ids (at most one call per scenario uses each)
                    ctx.trace_context.trace_id = trace::TraceId::from(if n == 4 { 0u128 } else if n == 9 { u128::MAX } else { n as u128 });
                    out.cell("C18.boundary-trace-id");
                }
                ctx.trace_context.span_id = trace::SpanId::from(0x5000 + n as u64);
                ctx.trace_context.sampling_decision = if n % 2 == 0 {
                    trace::SamplingDecision::Sampled
                } else {
                    trace::SamplingDecision::Unsampled
                };
                let tr = ctx.trace_context;
                let b2 = body.clone();
                let fut: CallFut = Box::pin(async move { ch.call(ctx, b2).await });
                let abandon = if rng.below(100) < cfg.abandon_pct as usize {
                    Some(rng.below(14) as u64)
                } else {
                    None
                };
                if !matches!(dl, Dl::Beyond(_)) {
                    max_deadline_v = max_deadline_v.max(vms() + dl.d_ms());
                }
                callers.push(Caller {
                    fut: Some(fut),
                    flag: flag(),
                    body,
                    dl,
                    d_ms: dl.d_ms(),
                    r_c,
                    v_c: vms(),
                    trace: tr,
                    res: Res::Pending,
                    v_res: 0,
                    step_res: 0,
                    polls: 0,
                    started_step: step,
                    abandon_after: abandon,
                    started_after_dispatch_end: !dispatch_alive,
                    abandon_stage: None,
                });
            }
            Act::Abandon(i, hook) => {
                if callers[i].fut.is_none() {
                    continue;
                }
                // coverage: at which stage is the call?
                let stage = {
                    let s = st.borrow();
                    let c = &callers[i];
                    let written = s.sent.iter().find(|x| matches!(&x.item, Item::Req{body,..} if *body == c.body));
                    if c.polls == 0 {
                        "never-polled"
                    } else if let Some(wr) = written {
                        let id = wr.item.id();
                        if s.recv.iter().any(|r| r.item.id() == id) {
                            "reply-buffered"
                        } else if s.inbox.iter().any(|(m, _)| m.request_id == id) {
                            "reply-in-inbox"
                        } else {
                            "transmitted"
                        }
                    } else {
                        "queued-or-blocked"
                    }
                };
                callers[i].abandon_stage = Some(stage);
                out.cell(format!("C03.abandon.{stage}"));
                let dstate = {
                    let s = st.borrow();
                    let l = w.dispatch.borrow().as_ref().map(|d| d.verif_in_flight().entries);
                    match l {
                        None => "dispatch-ended",
                        Some(e) if e >= cfg.max_in_flight => "at-capacity",
                        Some(_) if !s.writable_now() => "transport-not-ready",
                        Some(_) => "idle-or-busy",
                    }
                };
                out.cell(format!("C03.dispatch.{dstate}"));
                if let Some(which) = hook {
                    out.cell(format!("C03.hook.{}", ["entry", "mid", "exit"][which as usize]));
                    let hits = Rc::new(RefCell::new(0u64));
                    let hits2 = hits.clone();
                    let ww = World {
                        st: w.st.clone(),
                        dispatch: w.dispatch.clone(),
                        dflag: w.dflag.clone(),
                        dispatch_result: w.dispatch_result.clone(),
                        dispatch_end_step: w.dispatch_end_step.clone(),
                        panics: w.panics.clone(),
                        lens_log: w.lens_log.clone(),
                        step: w.step.clone(),
                        ev: w.ev.clone(),
                    };
                    tarpc::verif::set_yield_hook(Some(Box::new(move |p, _id| {
                        let idx = match p {
                            tarpc::verif::Point::ClientGuardDropEntry => 0,
                            tarpc::verif::Point::ClientGuardDropMid => 1,
                            tarpc::verif::Point::ClientGuardDropExit => 2,
                        };
                        if idx != which {
                            return;
                        }
                        // what another worker thread could do here: run the dispatch task
                        *hits2.borrow_mut() += 1;
                        ww.ev.borrow_mut().push(format!("  (guard drop point {idx}: dispatch runs)"));
                        ww.poll_dispatch(true);
                    })));
                    callers[i].fut = None; // drops the call future -> ResponseGuard::drop
                    tarpc::verif::set_yield_hook(None);
                    nested_polls += *hits.borrow();
                } else {
                    callers[i].fut = None;
                }
                let c = &mut callers[i];
                c.res = Res::Abandoned;
                c.v_res = vms();
                c.step_res = step;
            }
            Act::Deliver(i) => {
                if i >= pool.len() {
                    continue;
                }
                let p = pool.remove(i);
                injected.entry(p.id).or_default().push(p.body.clone());
                inj_seq += 1;
                if let Some(k) = p.stray {
                    out.cell(format!("C01.stray.{k}"));
                }
                let msg = if p.err {
                    Err(ServerError::new(std::io::ErrorKind::Other, p.body.clone()))
                } else {
                    Ok(p.body.clone())
                };
                ev!("   reply id={} body={} err={}", p.id, p.body, p.err);
                st.borrow_mut().env_inject(
                    Response {
                        request_id: p.id,
                        message: msg,
                    },
                    inj_seq,
                );
            }
            Act::ReplyTo(k) => {
                if let Some(id) = wire_reqs.get(k).cloned() {
                    reply_seq += 1;
                    let body = format!("r{}-for-{}", reply_seq, id);
                    injected.entry(id).or_default().push(body.clone());
                    inj_seq += 1;
                    st.borrow_mut().env_inject(
                        Response {
                            request_id: id,
                            message: Ok(body),
                        },
                        inj_seq,
                    );
                }
            }
            Act::OpenFlush => st.borrow_mut().env_open_flush(),
            Act::CloseFlush => st.borrow_mut().env_close_flush(),
            Act::FreeSlot => {
                let n = 1 + rng.below(cfg.cap);
                st.borrow_mut().env_free_slots(n)
            }
            Act::DropHandle => {
                handle = None;
            }
            Act::Eof => {
                eof_sent = true;
                pool.clear();
                st.borrow_mut().env_eof();
            }
            Act::Advance(d) => {
                // wakes caused by the timers that fire are stamped with the new time
                set_vnow(vms() + d, step);
                tokio::time::advance(Duration::from_millis(d)).await;
            }
            Act::RealSleep(d) => {
                std::thread::sleep(Duration::from_millis(d));
                out.cell("C05.real-queueing-delay");
            }
        }
    }
    // ------------------------------------------------------------------ end-of-run oracles
    drop(handle);
    let dispatch_alive = w.dispatch.borrow().is_some();
    final_oracles(
        cfg,
        &w,
        &st,
        &mut callers,
        &injected,
        dispatch_alive,
        vms(),
        real0,
        out,
    );
    out.count("nested_dispatch_polls_in_guard_drop", nested_polls);
    out.count("isolated_stray_deliveries", isolated);
    out.count("unsolicited_control_polls", control_polls);
    out.count("idle_points", idle_points);
    out.count("steps", step);
    // signature: abstract event kinds
    let mut h = FNV0;
    for e in w.ev.borrow().iter() {
        let mut it = e.split_whitespace();
        let a = it.next().unwrap_or("");
        let b = it.next().unwrap_or("");
        let k = if a.contains('@') { b } else { a };
        let k = k.split('(').next().unwrap_or(k);
        fnv(&mut h, k);
        if e.contains("->") {
            // result class
            let r = e.rsplit("-> ").next().unwrap_or("");
            let r = r.split('(').next().unwrap_or(r);
            fnv(&mut h, r);
        }
    }
    for (op, r) in st.borrow().oplog.iter() {
        h = (h ^ ((*op as u64) << 3 | *r as u64)).wrapping_mul(1099511628211);
    }
    out.sig = h;
    out.trace = w.ev.borrow().clone();
    // drop whatever is still alive inside the runtime
    callers.clear();
    *w.dispatch.borrow_mut() = None;
}

fn far_instant(base: Instant) -> Instant {
    // the largest Instant reachable by repeated doubling
    let mut cur = base;
    let mut stepd = Duration::from_secs(1 << 62);
    while stepd >= Duration::from_secs(1) {
        if let Some(n) = cur.checked_add(stepd) {
            cur = n;
        }
        stepd /= 2;
    }
    cur
}

fn pick_stray(
    rng: &mut Rng,
    st: &Rc<RefCell<State<Response<String>>>>,
    callers: &[Caller],
    injected: &HashMap<u64, Vec<String>>,
) -> Option<(u64, &'static str)> {
    let s = st.borrow();
    let mut cands: Vec<(u64, &'static str)> = vec![(u64::MAX, "max-id"), (7_000_000, "never-issued")];
    for x in s.sent.iter() {
        match &x.item {
            Item::Cancel { id, .. } if !x.write_failed => cands.push((*id, "cancelled")),
            Item::Req { id, body, .. } if !x.write_failed => {
                if let Some(c) = callers.iter().find(|c| c.body == *body) {
                    match c.res {
                        Res::Deadline => cands.push((*id, "expired")),
                        Res::Ok(_) | Res::ServerErr(_) => {
                            if injected.contains_key(id) {
                                cands.push((*id, "already-answered"))
                            }
                        }
                        _ => {}
                    }
                }
            }
            _ => {}
        }
    }
    if cands.is_empty() {
        None
    } else {
        Some(cands[rng.below(cands.len())])
    }
}

struct IdInfo {
    id: u64,
    sent_idx: usize,
    v_arm: u64,
    r_send: Instant,
    r_poll_start: Instant,
    step: u64,
    failed: bool,
}

fn id_map(s: &State<Response<String>>) -> HashMap<String, IdInfo> {
    let mut m = HashMap::new();
    for (i, x) in s.sent.iter().enumerate() {
        if let Item::Req { id, body, .. } = &x.item {
            m.entry(body.clone()).or_insert(IdInfo {
                id: *id,
                sent_idx: i,
                v_arm: x.v_ms,
                r_send: x.real,
                r_poll_start: x.epoch_start,
                step: x.step,
                failed: x.write_failed,
            });
        }
    }
    m
}

/// lower bound (virtual ms) before which the timer of a call cannot legitimately fire
fn lower_bound(c: &Caller, info: &IdInfo) -> u64 {
    let real_q = info.r_send.saturating_duration_since(c.r_c);
    let rem = Duration::from_millis(c.d_ms).saturating_sub(real_q);
    info.v_arm + rem.as_millis() as u64
}
/// upper bound (virtual ms) by which the timer must have fired once the dispatch was polled
fn upper_bound(c: &Caller, info: &IdInfo) -> u64 {
    let real_q = info.r_poll_start.saturating_duration_since(c.r_c);
    let rem = Duration::from_millis(c.d_ms).saturating_sub(real_q);
    let mut ms = rem.as_millis() as u64;
    if rem.subsec_nanos() % 1_000_000 != 0 {
        ms += 1;
    }
    info.v_arm + ms + 2
}

#[allow(clippy::too_many_arguments)]
fn idle_oracles(
    cfg: &Cfg,
    w: &World,
    st: &Rc<RefCell<State<Response<String>>>>,
    callers: &[Caller],
    _handle: &Option<client::Channel<String, String>>,
    step: u64,
    now: u64,
    _real0: Instant,
    out: &mut Outcome,
) {
    let s = st.borrow();
    let ids = id_map(&s);
    let dispatch_alive = w.dispatch.borrow().is_some();
    let dres = w.dispatch_result.borrow().clone();
    let read_closed = s.eof_seen;
    for c in callers.iter() {
        let info = ids.get(&c.body);
        // ---- C03 obligation
        if c.res == Res::Abandoned {
            if let Some(info) = info {
                if !info.failed {
                    let replied = s.recv.iter().any(|r| r.item.id() == info.id);
                    let cancelled = s
                        .sent
                        .iter()
                        .any(|x| matches!(x.item, Item::Cancel { id, .. } if id == info.id) );
                    let slack = c.r_c.elapsed().as_millis() as u64 + 2;
                    // (a deadline beyond the supported span is enforced after one year at the latest)
                    let certainly_unexpired = now + slack < info.v_arm + c.d_ms.min(YEAR_MS);
                    let conn_lost = read_closed || matches!(dres, Some(Err(_))) || s.failed;
                    // if the abandonment happened before the request was written the request
                    // must never have been transmitted at all
                    if !replied && !cancelled && certainly_unexpired && !conn_lost && (dispatch_alive || matches!(dres, Some(Ok(())))) && s.writable_now() {
                        out.viols.push(Viol::new(
                            "C03",
                            "no-cancel-at-idle",
                            format!(
                                "abandoned call {} (id {}) was transmitted, has not ended (no reply consumed, deadline not reached: now={}ms arm={}ms D={}ms) and at a clock-stopped idle point (step {}) no Cancel has been written",
                                c.body, info.id, now, info.v_arm, c.d_ms, step
                            ),
                        ));
                    }
                }
            }
        }
        // ---- C05 late: transmitted, unanswered, still pending past the upper bound
        if c.res == Res::Pending && c.fut.is_some() && matches!(c.dl, Dl::Ms(_) | Dl::Past) {
            if let Some(info) = info {
                if !info.failed && dispatch_alive {
                    let replied = s.recv.iter().any(|r| r.item.id() == info.id);
                    let ub = upper_bound(c, info);
                    if !replied && now > ub {
                        out.viols.push(Viol::new(
                            "C05",
                            "deadline-not-enforced",
                            format!(
                                "call {} (id {}) transmitted at {}ms with D={}ms (queued {:?} real before transmission) is still pending at idle point now={}ms > bound {}ms",
                                c.body, info.id, info.v_arm, c.d_ms, info.r_poll_start.saturating_duration_since(c.r_c), now, ub
                            ),
                        ));
                    }
                }
            }
        }
        // ---- C09/C10: later calls fail fast
        if c.started_after_dispatch_end && c.res == Res::Pending && c.polls > 0 {
            out.viols.push(Viol::new(
                if cfg.fault.is_some() { "C09" } else { "C10" },
                "later-call-not-failing-fast",
                format!("call {} started after the dispatch ended is still pending at an idle point", c.body),
            ));
        }
    }
    // ---- C02: nothing is runnable, yet a reply is readable: its arrival did not wake the dispatch
    if dispatch_alive && !s.inbox.is_empty() && !s.failed {
        let last_stray = s.recv.last().map(|r| matches!(&r.item, Item::Resp{body: Ok(b), ..} if b.starts_with("stray"))).unwrap_or(false);
        out.viols.push(Viol::new(
            "C02",
            "readable-reply-ignored-at-idle",
            format!("at a clock-stopped idle point (step {step}) {} replies are readable from the transport but the dispatch is not runnable: it went idle without polling the stream to Pending, so the arrival could not wake it", s.inbox.len()),
        ));
        if last_stray {
            out.viols.push(Viol::new(
                "C01",
                "stray-reply-stalled-reading",
                format!("after discarding a stray reply the dispatch stopped reading: {} replies for other calls stay unread at an idle point (step {step})", s.inbox.len()),
            ));
        }
    }
    // ---- C11: everything resolved or dropped => zero entries, zero timers (clock stopped)
    if dispatch_alive && s.writable_now() && !s.failed {
        let all_over = callers.iter().all(|c| c.fut.is_none());
        if all_over {
            if let Some(d) = w.dispatch.borrow().as_ref() {
                let l = d.verif_in_flight();
                if l.entries != 0 || l.timers != 0 {
                    out.viols.push(Viol::new(
                        "C11",
                        "client-not-reclaimed",
                        format!(
                            "all calls resolved or dropped, transport writable, clock stopped at {}ms, yet the dispatch tracks {} requests and {} timers",
                            now, l.entries, l.timers
                        ),
                    ));
                }
                out.cells.push("C11.client.all-over-idle".into());
            }
        }
    }
    // ---- C10: after EOF was seen by the dispatch it must have stopped, all calls resolved
    if read_closed {
        if dispatch_alive {
            out.viols.push(Viol::new("C10", "dispatch-alive-after-read-close", "the peer closed the read side, the dispatch consumed end-of-stream, but is still running at an idle point".into()));
        }
        for c in callers.iter() {
            if c.res == Res::Pending && c.polls > 0 {
                out.viols.push(Viol::new("C10", "call-hangs-after-read-close", format!("call {} still pending at an idle point after the peer closed the read side", c.body)));
            }
        }
    }
    // ---- C09: after a fatal fault the dispatch must have ended and no started call may hang
    if let Some((op, _)) = s.fault_fired {
        let fatal = match op {
            Op::Send => matches!(s.failed_write, Some(Item::Cancel { .. })),
            Op::Eof => false,
            _ => true,
        };
        if fatal {
            if dispatch_alive {
                out.viols.push(Viol::new("C09", "dispatch-alive-after-fault", format!("transport {} failed but the dispatch is still running at an idle point", op.name())));
            }
            for c in callers.iter() {
                if c.res == Res::Pending && c.polls > 0 {
                    out.viols.push(Viol::new("C09", "call-hangs-after-fault", format!("call {} still pending at an idle point after transport {} failed", c.body, op.name())));
                }
            }
        }
    }
}

#[allow(clippy::too_many_arguments)]
fn final_oracles(
    cfg: &Cfg,
    w: &World,
    st: &Rc<RefCell<State<Response<String>>>>,
    callers: &mut [Caller],
    injected: &HashMap<u64, Vec<String>>,
    dispatch_alive: bool,
    now: u64,
    _real0: Instant,
    out: &mut Outcome,
) {
    let s = st.borrow();
    out.viols.extend(s.viols.iter().cloned());
    for p in w.panics.borrow().iter() {
        if p.contains("VERIF-SPIN") {
            continue; // already recorded by the mock as C14/spin
        }
        let prop = if cfg.fault.is_some() {
            "C09"
        } else if cfg.extreme_deadlines {
            "C16"
        } else {
            "C16"
        };
        out.viols.push(Viol::new(prop, "panic", format!("panic in client code: {p}")));
    }
    let ids = id_map(&s);
    let dres = w.dispatch_result.borrow().clone();
    // positions
    let mut req_pos: BTreeMap<u64, usize> = BTreeMap::new();
    let mut cancel_pos: BTreeMap<u64, Vec<usize>> = BTreeMap::new();
    let mut body_count: HashMap<String, usize> = HashMap::new();
    for (i, x) in s.sent.iter().enumerate() {
        match &x.item {
            Item::Req { id, body, .. } => {
                *body_count.entry(body.clone()).or_default() += 1;
                if req_pos.insert(*id, i).is_some() {
                    out.viols.push(Viol::new("C01", "wire-id-reused", format!("wire id {id} used by two requests")));
                }
            }
            Item::Cancel { id, .. } => cancel_pos.entry(*id).or_default().push(i),
            _ => {}
        }
    }
    for (b, n) in body_count.iter() {
        if *n > 1 {
            out.viols.push(Viol::new("C01", "request-sent-twice", format!("request {b} was written {n} times")));
        }
    }
    let fault = s.fault_fired;
    let fatal_fault = match fault {
        Some((Op::Send, _)) => matches!(s.failed_write, Some(Item::Cancel { .. })),
        Some((Op::Eof, _)) | None => false,
        Some(_) => true,
    };
    let mut any_reply = false;
    let mut any_deadline = false;
    let mut any_abandon = false;
    for c in callers.iter() {
        let info = ids.get(&c.body);
        out.count("calls", 1);
        match &c.res {
            Res::Pending => {
                if matches!(c.dl, Dl::Beyond(_)) && !cfg.extreme_deadlines {
                    continue;
                }
                // C02: never still pending when nothing is left that could wake the system
                let kind = if c.flag.is_woken() { "woken-but-unpolled(harness)" } else { "not-woken" };
                out.viols.push(Viol::new(
                    "C02",
                    "call-pending-at-quiescence",
                    format!(
                        "call {} (D={}ms, transmitted={}) still pending at quiescence (now={}ms, polls={}, {kind}); dispatch alive={} result={:?}",
                        c.body, c.d_ms, info.is_some(), now, c.polls, dispatch_alive, dres
                    ),
                ));
                // C09: after any transport fault no call may hang - in particular a failed request
                // write "fails only that call", the others go on
                if fault.is_some() && !matches!(fault, Some((Op::Eof, _))) {
                    out.viols.push(Viol::new(
                        "C09",
                        "call-hangs-after-fault",
                        format!("transport fault {fault:?} fired (fatal={fatal_fault}); call {} (transmitted={}) is still pending at quiescence, dispatch alive={dispatch_alive} result={dres:?}", c.body, info.is_some()),
                    ));
                }
            }
            Res::Ok(b) | Res::ServerErr(b) => {
                any_reply = true;
                out.count("replies_delivered", 1);
                match info {
                    None => out.viols.push(Viol::new("C01", "reply-without-request", format!("call {} got reply {b} but its request never reached the transport", c.body))),
                    Some(info) => {
                        let inj = injected.get(&info.id);
                        match inj {
                            None => out.viols.push(Viol::new("C01", "foreign-reply", format!("call {} (wire id {}) completed with {b}, which the peer never sent for id {}", c.body, info.id, info.id))),
                            Some(v) => {
                                if !v.contains(b) {
                                    out.viols.push(Viol::new("C01", "foreign-reply", format!("call {} (wire id {}) completed with {b}; replies sent for that id: {v:?}", c.body, info.id)));
                                } else if v[0] != *b {
                                    out.viols.push(Viol::new("C01", "not-first-reply", format!("call {} (wire id {}) completed with {b} although {} was consumed first", c.body, info.id, v[0])));
                                }
                            }
                        }
                        if matches!(c.res, Res::Ok(_)) != s.recv.iter().any(|r| matches!(&r.item, Item::Resp{id, body: Ok(x)} if *id == info.id && x == b)) {
                            out.viols.push(Viol::new("C01", "reply-kind-changed", format!("call {} outcome {:?} does not match the Ok/Err kind of the reply the peer sent", c.body, c.res)));
                        }
                        if cancel_pos.contains_key(&info.id) {
                            out.viols.push(Viol::new("C03", "cancel-for-resolved-call", format!("Cancel written for call {} (id {}) which resolved normally with a reply", c.body, info.id)));
                        }
                        if info.failed {
                            out.viols.push(Viol::new("C09", "ok-after-failed-write", format!("call {} whose request write failed completed with a reply", c.body)));
                        }
                    }
                }
            }
            Res::Deadline => {
                any_deadline = true;
                out.count("deadline_exceeded", 1);
                match info {
                    None => {
                        out.viols.push(Viol::new("C05", "deadline-error-untransmitted", format!("call {} failed with DeadlineExceeded although its request was never handed to the transport", c.body)));
                    }
                    Some(info) => {
                        // never early: the caller was resolved at v_res (its wake can only be earlier than its poll,
                        // so compare against the dispatch poll that completed it: use the caller's resolve time,
                        // which is >= the wake time; early detection needs the wake time -> use lens log step)
                        let lb = lower_bound(c, info);
                        if c.v_res < lb && matches!(c.dl, Dl::Ms(_) | Dl::Past) {
                            out.viols.push(Viol::new(
                                "C05",
                                "deadline-early",
                                format!(
                                    "call {} (id {}) got DeadlineExceeded at {}ms, before its deadline: transmitted at {}ms, D={}ms, real queueing {:?} => earliest legitimate expiry {}ms",
                                    c.body, info.id, c.v_res, info.v_arm, c.d_ms, info.r_send.saturating_duration_since(c.r_c), lb
                                ),
                            ));
                        }
                        // a reply consumed strictly before the timer could fire must have been delivered
                        if let Some(r) = s.recv.iter().find(|r| r.item.id() == info.id) {
                            if r.v_ms < lb && matches!(c.dl, Dl::Ms(_)) {
                                out.viols.push(Viol::new(
                                    "C05",
                                    "reply-before-deadline-lost",
                                    format!("call {} (id {}) got DeadlineExceeded although its reply was consumed at {}ms, before the earliest expiry {}ms", c.body, info.id, r.v_ms, lb),
                                ));
                            }
                        }
                        if cancel_pos.contains_key(&info.id) {
                            out.viols.push(Viol::new("C03", "cancel-for-resolved-call", format!("Cancel written for call {} (id {}) which resolved with DeadlineExceeded", c.body, info.id)));
                        }
                    }
                }
            }
            Res::Abandoned => {
                any_abandon = true;
                out.count("abandoned", 1);
            }
            Res::Shutdown => {
                out.count("shutdown", 1);
                let legit = fault.is_some() || s.eof_seen || c.started_after_dispatch_end || matches!(dres, Some(_));
                if !legit {
                    out.viols.push(Viol::new("C10", "spurious-shutdown", format!("call {} failed with Shutdown although no fault/close happened and the dispatch is running", c.body)));
                }
            }
            Res::Channel(_) => {
                out.count("channel_error", 1);
                if !fatal_fault {
                    out.viols.push(Viol::new("C09", "spurious-channel-error", format!("call {} failed with a Channel error but no fatal transport fault was injected ({fault:?})", c.body)));
                }
            }
            Res::Send => {
                out.count("send_error", 1);
                let mine = matches!(&s.failed_write, Some(Item::Req{body, ..}) if *body == c.body);
                if !mine {
                    out.viols.push(Viol::new("C09", "send-error-wrong-call", format!("call {} failed with Send error but the failed write was {:?}", c.body, s.failed_write.as_ref().map(|i| i.short()))));
                }
            }
        }
        // C09: the call whose request write failed gets Send (or was abandoned / expired(never early))
        if let Some(Item::Req { body, .. }) = &s.failed_write {
            if *body == c.body && !matches!(c.res, Res::Send | Res::Abandoned) {
                out.viols.push(Viol::new("C09", "failed-write-not-reported", format!("the write of request {} failed but the call resolved {:?}", c.body, c.res)));
            }
        }
    }
    // ---- C03 wire rules
    for (id, poss) in cancel_pos.iter() {
        out.count("cancels_written", poss.len() as u64);
        if poss.len() > 1 {
            out.viols.push(Viol::new("C03", "cancel-twice", format!("Cancel for id {id} written {} times", poss.len())));
        }
        match req_pos.get(id) {
            None => out.viols.push(Viol::new("C03", "cancel-without-request", format!("Cancel for id {id} written but no Request with that id was"))),
            Some(rp) => {
                if *rp > poss[0] {
                    out.viols.push(Viol::new("C03", "cancel-before-request", format!("Cancel for id {id} written before its Request")));
                }
                if s.sent[*rp].write_failed {
                    out.viols.push(Viol::new("C03", "cancel-after-failed-write", format!("Cancel for id {id} written although the request write had failed (request ended)")));
                }
            }
        }
        // a cancel must belong to an abandoned call
        if let Some(rp) = req_pos.get(id) {
            if let Item::Req { body, .. } = &s.sent[*rp].item {
                if let Some(c) = callers.iter().find(|c| c.body == *body) {
                    if c.res != Res::Abandoned && !matches!(c.res, Res::Ok(_) | Res::ServerErr(_) | Res::Deadline) {
                        out.viols.push(Viol::new("C03", "cancel-for-live-call", format!("Cancel for id {id} written but call {} was not abandoned ({:?})", c.body, c.res)));
                    }
                    // request written after the abandonment completed => it should never have been transmitted
                    if c.res == Res::Abandoned && s.sent[*rp].step > c.step_res {
                        out.cells.push("C03.request-written-after-abandon+cancel".into());
                    }
                }
            }
        }
        // C18: cancel carries the trace id and span id of its request
        if let (Some(rp), Some(cp)) = (req_pos.get(id), poss.first()) {
            if let (Item::Req { trace: rt, .. }, Item::Cancel { trace: ct, .. }) = (&s.sent[*rp].item, &s.sent[*cp].item) {
                if rt.trace_id != ct.trace_id || rt.span_id != ct.span_id || rt.sampling_decision != ct.sampling_decision {
                    out.viols.push(Viol::new("C18", "cancel-trace-mismatch", format!("Cancel for id {id} carries trace {:?}/{:?}, its Request carried {:?}/{:?}", ct.trace_id, ct.span_id, rt.trace_id, rt.span_id)));
                }
                out.nontrivial("C18");
            }
        }
    }
    // ---- C18: transmitted trace id == the caller's, span id fresh, never exchanged
    {
        let mut spans = std::collections::HashSet::new();
        for x in s.sent.iter() {
            if let Item::Req { body, trace, id, .. } = &x.item {
                if let Some(c) = callers.iter().find(|c| c.body == *body) {
                    if trace.trace_id != c.trace.trace_id {
                        out.viols.push(Viol::new("C18", "wire-trace-id", format!("request {} (id {id}) transmitted with trace id {:?}, the caller supplied {:?}", body, trace.trace_id, c.trace.trace_id)));
                    }
                    if trace.sampling_decision != c.trace.sampling_decision {
                        out.viols.push(Viol::new("C18", "wire-sampling", format!("request {} (id {id}) transmitted with sampling {:?}, the caller supplied {:?}", body, trace.sampling_decision, c.trace.sampling_decision)));
                    }
                    if trace.span_id == c.trace.span_id {
                        out.viols.push(Viol::new("C18", "span-id-not-fresh", format!("request {} (id {id}) transmitted with the caller's own span id", body)));
                    }
                    if !spans.insert(trace.span_id) {
                        out.viols.push(Viol::new("C18", "span-id-shared", format!("two requests share span id {:?}", trace.span_id)));
                    }
                }
            }
        }
    }
    // ---- C03 request written after abandonment without cancel (end-of-run form, dispatch completed orderly)
    for c in callers.iter() {
        if c.res == Res::Abandoned && matches!(c.dl, Dl::Ms(_) | Dl::Past) {
            if let Some(info) = ids.get(&c.body) {
                if info.failed {
                    continue;
                }
                let replied = s.recv.iter().any(|r| r.item.id() == info.id);
                let slack = c.r_c.elapsed().as_millis() as u64 + 2;
                let v_end = now; // final time
                let possibly_expired = v_end + slack >= info.v_arm + c.d_ms;
                if !replied && !possibly_expired && !cancel_pos.contains_key(&info.id) && matches!(dres, Some(Ok(()))) && !s.eof_seen && !s.failed {
                    out.viols.push(Viol::new("C10", "closed-before-queued-cancel", format!("the dispatch completed Ok(()) without writing the queued Cancel for abandoned call {} (id {})", c.body, info.id)));
                }
            }
        }
    }
    // ---- C10: everything queued is transmitted before the write side is closed
    if let Some(co) = s.close_first_order {
        if !s.failed && fault.is_none() {
            if let Some(x) = s.sent.iter().find(|x| x.order > co) {
                out.viols.push(Viol::new("C10", "transmitted-after-close", format!("the dispatch started closing the write side while {:?} was still queued (it was handed to the transport afterwards)", x.item)));
            }
        }
    }
    // ---- C10 client shutdown
    let everything_over = callers.iter().all(|c| c.fut.is_none());
    if dispatch_alive {
        if everything_over && !s.tx_wake_owed {
            out.viols.push(Viol::new("C10", "dispatch-never-finished", format!("all handles dropped and all calls over, transport writable, but the dispatch is still running at quiescence (lens {:?})", w.lens_log.borrow().last())));
        }
    } else if let Some(Ok(())) = dres {
        if !s.eof_seen {
            if !s.close_called {
                out.viols.push(Viol::new("C10", "ok-without-close", "the dispatch completed Ok(()) after the last handle was dropped without closing the write side".into()));
            }
            out.cells.push("C10.client.handles-dropped".into());
            if !cancel_pos.is_empty() {
                out.cells.push("C10.client.handles-dropped-with-cancels".into());
            }
        } else {
            out.cells.push("C10.client.read-closed".into());
        }
        if fatal_fault {
            out.viols.push(Viol::new("C09", "fault-swallowed", format!("transport fault {fault:?} fired but the dispatch completed Ok(())")));
        }
    } else if let Some(Err(v)) = &dres {
        if v != "panic" {
            let expect = match fault {
                Some((Op::Ready, _)) => "Ready",
                Some((Op::Flush, _)) => "Flush",
                Some((Op::Close, _)) => "Close",
                Some((Op::Next, _)) => "Read",
                Some((Op::Send, _)) if fatal_fault => "Write",
                _ => "<none>",
            };
            if v != expect {
                out.viols.push(Viol::new("C09", "wrong-error-variant", format!("the dispatch ended with ChannelError::{v} but the injected fault was {fault:?} (expected {expect})")));
            }
        }
    }
    if fatal_fault && dispatch_alive {
        out.viols.push(Viol::new("C09", "dispatch-alive-after-fault", format!("fatal fault {fault:?} fired but the dispatch never ended")));
    }
    if let Some((Op::Send, _)) = fault {
        if !fatal_fault && matches!(dres, Some(Err(_))) {
            out.viols.push(Viol::new("C09", "request-write-failure-fatal", format!("failing to write one request ended the whole dispatch: {dres:?}")));
        }
    }
    // ---- C11: bounded in flight (certainly in flight at each request write), entries == timers
    for (stp, e, t) in w.lens_log.borrow().iter() {
        if e != t {
            out.viols.push(Viol::new("C11", "client-entries-vs-timers", format!("after the dispatch poll at step {stp}: {e} tracked requests but {t} pending timers")));
            break;
        }
        if *e > cfg.max_in_flight {
            out.viols.push(Viol::new("C11", "client-over-max-in-flight", format!("after the dispatch poll at step {stp}: {e} tracked requests > max_in_flight_requests {}", cfg.max_in_flight)));
            break;
        }
    }
    {
        // wire-derived: at each successful request write count ids certainly unfinished
        let real_slack = 3 + _real0.elapsed().as_millis() as u64;
        let mut first_reply_step: HashMap<u64, u64> = HashMap::new();
        for r in s.recv.iter() {
            first_reply_step.entry(r.item.id()).or_insert(r.step);
        }
        let mut cancel_idx: HashMap<u64, usize> = HashMap::new();
        for (i, x) in s.sent.iter().enumerate() {
            if let Item::Cancel { id, .. } = &x.item {
                cancel_idx.entry(*id).or_insert(i);
            }
        }
        let dmap: HashMap<&str, &Caller> = callers.iter().map(|c| (c.body.as_str(), &*c)).collect();
        // (sent index, id, v_arm, d_ms or None)
        let reqs: Vec<(usize, u64, u64, Option<u64>)> = s
            .sent
            .iter()
            .enumerate()
            .filter(|(_, x)| !x.write_failed)
            .filter_map(|(i, x)| match &x.item {
                Item::Req { id, body, .. } => Some((
                    i,
                    *id,
                    x.v_ms,
                    dmap.get(body.as_str()).and_then(|c| if matches!(c.dl, Dl::Ms(_)) { Some(c.d_ms) } else { None }),
                )),
                _ => None,
            })
            .collect();
        let mut live: Vec<usize> = vec![]; // indices into reqs that may still be unfinished
        for (n, (i, _id, v_ms, _)) in reqs.iter().enumerate() {
            let step_now = s.sent[*i].step;
            // within one step the relative order of a write and a read is not recorded; a reply
            // consumed in the same step counts as possibly earlier (conservative for this bound)
            live.retain(|m| {
                let (_, oid, ov, od) = reqs[*m];
                let replied = first_reply_step.get(&oid).map(|st| *st <= step_now).unwrap_or(false);
                let cancelled = cancel_idx.get(&oid).map(|c| c < i).unwrap_or(false);
                let expired_possible = match od {
                    Some(d) => *v_ms + real_slack >= ov + d,
                    None => true,
                };
                !(replied || cancelled || expired_possible)
            });
            let certain = live.len() + 1;
            if certain > cfg.max_in_flight {
                out.viols.push(Viol::new("C11", "client-wire-over-max-in-flight", format!("when request #{n} was written, {certain} requests were certainly transmitted-and-unfinished > max_in_flight_requests {}", cfg.max_in_flight)));
                break;
            }
            if certain == cfg.max_in_flight {
                out.cells.push("C11.client.at-capacity".into());
            }
            live.push(n);
        }
    }
    // ---- coverage cells / nontrivial flags
    if any_reply {
        out.nontrivial("C01");
    }
    if callers.iter().any(|c| !matches!(c.res, Res::Pending | Res::Abandoned)) {
        out.nontrivial("C02");
    }
    if any_abandon {
        out.nontrivial("C03");
    }
    if any_deadline || callers.iter().any(|c| matches!(c.res, Res::Ok(_)) && c.d_ms <= 200) {
        out.nontrivial("C05");
    }
    if s.fault_fired.is_some() {
        out.nontrivial("C09");
        out.cells.push(format!("C09.fault.{}", s.fault_fired.unwrap().0.name()));
    }
    if matches!(dres, Some(Ok(()))) {
        out.nontrivial("C10");
    }
    if !callers.is_empty() {
        out.nontrivial("C11");
        out.nontrivial("C18");
    }
    if !s.sent.is_empty() {
        out.nontrivial("C14");
    }
    if cfg.extreme_deadlines {
        out.nontrivial("C16");
    }
    for c in callers.iter() {
        out.cells.push(format!("C02.outcome.{}", c.res.kind()));
        let cls = match c.dl {
            Dl::Past => "past",
            Dl::Ms(0) => "zero",
            Dl::Ms(1..=5) => "1-5ms",
            Dl::Ms(6..=10_000) => "50ms-10s",
            Dl::Ms(x) if x >= YEAR_MS => "largest-span",
            Dl::Ms(_) => "hours",
            Dl::Beyond(_) => "beyond-span",
        };
        out.cells.push(format!("C05.deadline.{cls}.{}", c.res.kind()));
    }
    for (op, r) in s.oplog.iter() {
        if *r == 1 {
            out.cells.push(format!("C14.client.pending.{}.{:?}", op.name(), s.model));
        }
    }
    out.cells.push(format!("C14.client.cap{}.{:?}", cfg.cap.min(8), s.model));
    for (op, n) in s.opcount.iter() {
        out.count(crate::props::op_counter_name(*op), *n as u64);
    }
    out.count("requests_written", req_pos.len() as u64);
    out.count("sink_calls", s.oplog.len() as u64);
}
