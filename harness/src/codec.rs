//! S-codec: the shipped transports fed with generated message sequences (C15) and with hostile
//! bytes / boundary messages (C16).
use crate::common::*;
use crate::e2e::{frag_pipe, FragPipe};
use crate::sclient::panic_msg;
use futures::{prelude::*, task::*};
use serde_json::{json, Value};
use std::{
    io,
    panic::{catch_unwind, AssertUnwindSafe},
    pin::Pin,
    time::{Duration, Instant},
};
use tarpc::{context, trace, ClientMessage, Request, Response, ServerError};
use tokio::io::AsyncWriteExt;
use tokio_util::codec::{Framed, LengthDelimitedCodec};

pub const PORTABLE: [io::ErrorKind; 18] = [
    io::ErrorKind::NotFound,
    io::ErrorKind::PermissionDenied,
    io::ErrorKind::ConnectionRefused,
    io::ErrorKind::ConnectionReset,
    io::ErrorKind::ConnectionAborted,
    io::ErrorKind::NotConnected,
    io::ErrorKind::AddrInUse,
    io::ErrorKind::AddrNotAvailable,
    io::ErrorKind::BrokenPipe,
    io::ErrorKind::AlreadyExists,
    io::ErrorKind::WouldBlock,
    io::ErrorKind::InvalidInput,
    io::ErrorKind::InvalidData,
    io::ErrorKind::TimedOut,
    io::ErrorKind::WriteZero,
    io::ErrorKind::Interrupted,
    io::ErrorKind::Other,
    io::ErrorKind::UnexpectedEof,
];

/// every io::ErrorKind this toolchain/platform can produce (stable names plus whatever errno maps to)
pub fn all_kinds() -> Vec<io::ErrorKind> {
    let mut v: Vec<io::ErrorKind> = PORTABLE.to_vec();
    v.extend([
        io::ErrorKind::HostUnreachable,
        io::ErrorKind::NetworkUnreachable,
        io::ErrorKind::NetworkDown,
        io::ErrorKind::NotADirectory,
        io::ErrorKind::IsADirectory,
        io::ErrorKind::DirectoryNotEmpty,
        io::ErrorKind::ReadOnlyFilesystem,
        io::ErrorKind::StaleNetworkFileHandle,
        io::ErrorKind::StorageFull,
        io::ErrorKind::NotSeekable,
        io::ErrorKind::FileTooLarge,
        io::ErrorKind::ResourceBusy,
        io::ErrorKind::ExecutableFileBusy,
        io::ErrorKind::Deadlock,
        io::ErrorKind::TooManyLinks,
        io::ErrorKind::ArgumentListTooLong,
        io::ErrorKind::Unsupported,
        io::ErrorKind::OutOfMemory,
    ]);
    for n in 1..200 {
        let k = io::Error::from_raw_os_error(n).kind();
        if !v.contains(&k) {
            v.push(k);
        }
    }
    v
}

#[derive(Clone, Debug, PartialEq)]
pub enum Msg {
    Req { id: u64, body: String, remaining: Option<Duration>, trace: (u128, u64, bool) },
    Cancel { id: u64, trace: (u128, u64, bool) },
    Resp { id: u64, body: Result<String, (io::ErrorKind, String)> },
}

fn tctx(t: &(u128, u64, bool)) -> trace::Context {
    trace::Context {
        trace_id: trace::TraceId::from(t.0),
        span_id: trace::SpanId::from(t.1),
        sampling_decision: if t.2 { trace::SamplingDecision::Sampled } else { trace::SamplingDecision::Unsampled },
    }
}
pub fn from_tctx(t: &trace::Context) -> (u128, u64, bool) {
    (u128::from(t.trace_id), u64::from(t.span_id), t.sampling_decision == trace::SamplingDecision::Sampled)
}

pub fn body_of(r: &mut Rng, class: usize) -> String {
    match class % 7 {
        0 => String::new(),
        1 => "x".into(),
        2 => "héllo wörld ✓ 日本語 \u{1F600} \u{0} \\ \" \n".into(),
        3 => {
            let n = 1 + r.below(300);
            (0..n).map(|i| char::from(b'a' + ((i * 7 + n) % 26) as u8)).collect()
        }
        4 => "y".repeat(64 * 1024),
        5 => {
            let n = r.below(2000);
            (0..n).map(|_| char::from_u32(0x20 + r.below(0x2000) as u32).unwrap_or('?')).collect()
        }
        _ => "z".repeat(1024 * 1024),
    }
}

pub fn gen_c2s(r: &mut Rng, n: usize, big: bool) -> Vec<Msg> {
    let ids = [0u64, 1, 1 << 32, u64::MAX, u64::MAX - 1, 42];
    (0..n)
        .map(|i| {
            let id = if r.chance(1, 2) { *r.pick(&ids) } else { r.next() };
            let tr = (r.next() as u128 | ((r.next() as u128) << 64), r.next(), r.chance(1, 2));
            let tr = if r.chance(1, 8) { (*r.pick(&[0u128, u128::MAX, 1]), *r.pick(&[0u64, u64::MAX]), false) } else { tr };
            if r.chance(1, 4) {
                Msg::Cancel { id, trace: tr }
            } else {
                let class = if big && i % 17 == 3 { 6 } else if big && i % 5 == 0 { 4 } else { r.below(4) + if r.chance(1, 6) { 2 } else { 0 } };
                let remaining = match r.below(6) {
                    0 => None,
                    1 => Some(Duration::ZERO),
                    2 => Some(Duration::from_millis(1)),
                    3 => Some(Duration::from_secs(10)),
                    4 => Some(Duration::from_secs(86400 * 400)),
                    _ => Some(Duration::new(r.below(100_000) as u64, r.below(1_000_000_000) as u32)),
                };
                Msg::Req { id, body: body_of(r, class), remaining, trace: tr }
            }
        })
        .collect()
}
pub fn gen_s2c(r: &mut Rng, n: usize, big: bool) -> Vec<Msg> {
    let ids = [0u64, 1, 1 << 32, u64::MAX, 7];
    let kinds = all_kinds();
    (0..n)
        .map(|i| {
            let id = if r.chance(1, 2) { *r.pick(&ids) } else { r.next() };
            if r.chance(1, 2) {
                let k = kinds[(i + r.below(kinds.len())) % kinds.len()];
                let cls = r.below(4);
                Msg::Resp { id, body: Err((k, body_of(r, cls))) }
            } else {
                let class = if big && i % 5 == 0 { 4 } else { r.below(4) };
                Msg::Resp { id, body: Ok(body_of(r, class)) }
            }
        })
        .collect()
}

pub fn to_client_message(m: &Msg) -> (ClientMessage<String>, Option<Instant>) {
    match m {
        Msg::Req { id, body, remaining, trace } => {
            let now = Instant::now();
            let mut c = context::current();
            c.deadline = match remaining {
                None => now.checked_sub(Duration::from_millis(2)).unwrap_or(now),
                Some(d) => now + *d,
            };
            c.trace_context = tctx(trace);
            (ClientMessage::Request(Request { context: c, id: *id, message: body.clone() }), Some(c.deadline))
        }
        Msg::Cancel { id, trace } => (ClientMessage::Cancel { trace_context: tctx(trace), request_id: *id }, None),
        _ => unreachable!(),
    }
}
pub fn to_response(m: &Msg) -> Response<String> {
    match m {
        Msg::Resp { id, body } => Response {
            request_id: *id,
            message: match body {
                Ok(b) => Ok(b.clone()),
                Err((k, d)) => Err(ServerError::new(*k, d.clone())),
            },
        },
        _ => unreachable!(),
    }
}
pub fn expected_kind(k: io::ErrorKind, serde: bool) -> io::ErrorKind {
    if !serde || PORTABLE.contains(&k) {
        k
    } else {
        io::ErrorKind::Other
    }
}

#[derive(Clone, Copy, Debug, PartialEq)]
pub enum Link {
    Unbounded,
    Bounded(usize),
    Json,
    Bincode,
}
#[derive(Clone, Copy, Debug, PartialEq)]
pub enum EndMode {
    Drop,
    Close,
}

/// minimal executor: polls the two futures whenever their wakers fired; returns false on a stall
fn drive2(a: Pin<&mut dyn Future<Output = ()>>, b: Pin<&mut dyn Future<Output = ()>>, max_polls: usize) -> Result<(), String> {
    let (fa, fb) = (flag(), flag());
    let (mut a, mut b) = (Some(a), Some(b));
    let mut polls = 0;
    while a.is_some() || b.is_some() {
        let mut progressed = false;
        if let Some(f) = a.as_mut() {
            if fa.is_woken() {
                fa.clear();
                progressed = true;
                polls += 1;
                let w = waker(fa.clone());
                if f.as_mut().poll(&mut Context::from_waker(&w)).is_ready() {
                    a = None;
                }
            }
        }
        if let Some(f) = b.as_mut() {
            if fb.is_woken() {
                fb.clear();
                progressed = true;
                polls += 1;
                let w = waker(fb.clone());
                if f.as_mut().poll(&mut Context::from_waker(&w)).is_ready() {
                    b = None;
                }
            }
        }
        if !progressed {
            return Err(format!("stalled: writer done={} reader done={} and no task was woken", a.is_none(), b.is_none()));
        }
        if polls > max_polls {
            return Err("poll budget exhausted".into());
        }
    }
    Ok(())
}

pub struct C15Cfg {
    pub seed: u64,
    pub link: Link,
    pub c2s: bool,
    pub n: usize,
    pub big: bool,
    pub max_chunk: usize,
    pub pending_pct: u64,
    pub end: EndMode,
    /// serde links only: the reading end's `Framed` was used before it became a tarpc transport (a
    /// greeting line read with another codec, `map_codec`, then `serde_transport::new`), so tarpc
    /// frames may already sit in its read buffer
    pub prebuffered: bool,
}

/// equality up to what a link may legitimately change (the remaining time of a request; a
/// non-portable error kind over a serializing link)
fn msg_eq(m: &Msg, g: &Msg, serde: bool) -> bool {
    match (m, g) {
        (Msg::Req { id: a, body: b, trace: t, .. }, Msg::Req { id: a2, body: b2, trace: t2, .. }) => a == a2 && b == b2 && t == t2,
        (Msg::Cancel { id: a, trace: t }, Msg::Cancel { id: a2, trace: t2 }) => a == a2 && t == t2,
        (Msg::Resp { id: a, body: Ok(b) }, Msg::Resp { id: a2, body: Ok(b2) }) => a == a2 && b == b2,
        (Msg::Resp { id: a, body: Err((k1, d1)) }, Msg::Resp { id: a2, body: Err((k2, d2)) }) => a == a2 && d1 == d2 && *k2 == expected_kind(*k1, serde),
        _ => false,
    }
}

/// a stream that is formally also a sink (never used as one)
struct StreamOnly<S>(S);
impl<S: Stream + Unpin> Stream for StreamOnly<S> {
    type Item = S::Item;
    fn poll_next(mut self: Pin<&mut Self>, cx: &mut Context<'_>) -> Poll<Option<S::Item>> {
        Pin::new(&mut self.0).poll_next(cx)
    }
}
impl<S, T> futures::Sink<T> for StreamOnly<S> {
    type Error = io::Error;
    fn poll_ready(self: Pin<&mut Self>, _: &mut Context<'_>) -> Poll<io::Result<()>> {
        unreachable!("harness: the pre-used reader is never written to")
    }
    fn start_send(self: Pin<&mut Self>, _: T) -> io::Result<()> {
        unreachable!()
    }
    fn poll_flush(self: Pin<&mut Self>, _: &mut Context<'_>) -> Poll<io::Result<()>> {
        unreachable!()
    }
    fn poll_close(self: Pin<&mut Self>, _: &mut Context<'_>) -> Poll<io::Result<()>> {
        unreachable!()
    }
}

const GREETING: &[u8] = b"hello tarpc\n";

/// One direction of one link: write a generated sequence at one end, read at the other.
pub fn c15_case(cfg: &C15Cfg) -> Outcome {
    let mut out = Outcome::default();
    out.desc = json!({"family": "S-codec", "case": "sequence", "seed": cfg.seed, "link": format!("{:?}", cfg.link), "direction": if cfg.c2s { "client->server" } else { "server->client" }, "messages": cfg.n, "max_chunk": cfg.max_chunk, "pending_pct": cfg.pending_pct, "end": format!("{:?}", cfg.end), "big_bodies": cfg.big, "reader_framed_used_before": cfg.prebuffered});
    let mut r = Rng::new(cfg.seed);
    let msgs = if cfg.c2s { gen_c2s(&mut r, cfg.n, cfg.big) } else { gen_s2c(&mut r, cfg.n, cfg.big) };
    let serde = matches!(cfg.link, Link::Json | Link::Bincode);
    let got: std::rc::Rc<std::cell::RefCell<Vec<(Msg, Option<Instant>, Instant, Instant)>>> = Default::default();
    let sent_deadlines: std::rc::Rc<std::cell::RefCell<Vec<(Option<Instant>, Instant, Instant)>>> = Default::default();
    let eos: std::rc::Rc<std::cell::Cell<Option<Result<(), String>>>> = Default::default();
    // reverse traffic after a half-close: once the reading end has seen end-of-stream it writes a
    // few messages back, which the end that closed only its writing side must still receive
    let do_rev = cfg.end == EndMode::Close && !cfg.prebuffered && !matches!(cfg.link, Link::Unbounded);
    let rev: std::rc::Rc<Vec<Msg>> = std::rc::Rc::new(if !do_rev {
        vec![]
    } else if cfg.c2s {
        gen_s2c(&mut r, 1 + (cfg.seed % 4) as usize, false)
    } else {
        gen_c2s(&mut r, 1 + (cfg.seed % 4) as usize, false)
    });
    let rev_got: std::rc::Rc<std::cell::RefCell<Vec<Msg>>> = Default::default();
    let rev_err: std::rc::Rc<std::cell::RefCell<Vec<String>>> = Default::default();
    let res = catch_unwind(AssertUnwindSafe(|| {
        macro_rules! run_pair {
            ($w:expr, $rd:expr, $tx_item:ty, $mk:expr, $unmk:expr, $rtx_item:ty, $rmk:expr, $runmk:expr) => {{
                let mut w = $w;
                let mut rd = $rd;
                let msgs2 = msgs.clone();
                let sd = sent_deadlines.clone();
                let end = cfg.end;
                let rev2 = rev.clone();
                let rev_got2 = rev_got.clone();
                let rev_err2 = rev_err.clone();
                let mut writer = Box::pin(async move {
                    for m in msgs2.iter() {
                        let (item, dl): ($tx_item, Option<Instant>) = $mk(m);
                        let t0 = Instant::now();
                        if w.feed(item).await.is_err() {
                            return;
                        }
                        sd.borrow_mut().push((dl, t0, Instant::now()));
                    }
                    let _ = w.flush().await;
                    match end {
                        EndMode::Close => {
                            let _ = w.close().await;
                            if do_rev {
                                // half-closed: this end keeps reading what the peer still sends
                                loop {
                                    match w.next().await {
                                        Some(Ok(item)) => rev_got2.borrow_mut().push($runmk(item).0),
                                        Some(Err(e)) => {
                                            rev_err2.borrow_mut().push(format!("the half-closed end failed to read: {e}"));
                                            break;
                                        }
                                        None => break,
                                    }
                                }
                                return;
                            }
                            // the writer is kept alive: end-of-stream must come from the close
                            futures::future::pending::<()>().await;
                        }
                        EndMode::Drop => drop(w),
                    }
                });
                let got2 = got.clone();
                let eos2 = eos.clone();
                let rev3 = rev2.clone();
                let rev_err3 = rev_err.clone();
                let mut reader = Box::pin(async move {
                    loop {
                        let t0 = Instant::now();
                        match rd.next().await {
                            Some(Ok(item)) => {
                                let (m, dl) = $unmk(item);
                                got2.borrow_mut().push((m, dl, t0, Instant::now()));
                            }
                            Some(Err(e)) => {
                                eos2.set(Some(Err(format!("{e}"))));
                                return;
                            }
                            None => {
                                eos2.set(Some(Ok(())));
                                if do_rev {
                                    // the peer only closed its writing side: replies must still get through
                                    for m in rev3.iter() {
                                        let (item, _): ($rtx_item, Option<Instant>) = $rmk(m);
                                        if let Err(e) = rd.feed(item).await {
                                            rev_err3.borrow_mut().push(format!("writing towards the half-closed end failed: {e}"));
                                            return;
                                        }
                                    }
                                    if let Err(e) = futures::SinkExt::<$rtx_item>::flush(&mut rd).await {
                                        rev_err3.borrow_mut().push(format!("flushing towards the half-closed end failed: {e}"));
                                    }
                                    drop(rd);
                                }
                                return;
                            }
                        }
                    }
                });
                // with EndMode::Close the writer never finishes; drive until the reader is done
                let (fa, fb) = (flag(), flag());
                let mut wdone = false;
                let mut rdone = false;
                let mut polls = 0usize;
                loop {
                    let mut progressed = false;
                    if !wdone && fa.is_woken() {
                        fa.clear();
                        progressed = true;
                        let wk = waker(fa.clone());
                        if writer.as_mut().poll(&mut Context::from_waker(&wk)).is_ready() {
                            wdone = true;
                        }
                    }
                    if !rdone && fb.is_woken() {
                        fb.clear();
                        progressed = true;
                        let wk = waker(fb.clone());
                        if reader.as_mut().poll(&mut Context::from_waker(&wk)).is_ready() {
                            rdone = true;
                        }
                    }
                    polls += 1;
                    if rdone && (wdone || (end == EndMode::Close && !do_rev)) {
                        break Ok(());
                    }
                    if !progressed {
                        break Err(format!("stalled after {polls} rounds: writer done={wdone}, reader done={rdone}, {} of {} items read", got.borrow().len(), msgs.len()));
                    }
                    if polls > 50_000_000 {
                        break Err("poll budget exhausted".to_string());
                    }
                }
            }};
        }
        // the reading end of a pre-used Framed: read the greeting with LinesCodec, switch the codec,
        // and only then hand the Framed (with whatever is already buffered) to tarpc
        macro_rules! lazy_rd {
            ($io:expr, $codec:expr) => {{
                let io = $io;
                StreamOnly(Box::pin(
                    futures::stream::once(async move {
                        let mut lines = Framed::new(io, tokio_util::codec::LinesCodec::new());
                        let g = lines.next().await;
                        assert!(matches!(&g, Some(Ok(l)) if l.as_bytes() == &GREETING[..GREETING.len() - 1]), "harness: greeting not read: {g:?}");
                        let framed = lines.map_codec(|_| LengthDelimitedCodec::new());
                        tarpc::serde_transport::new(framed, $codec)
                    })
                    .flatten(),
                ))
            }};
        }
        let mk_c = |m: &Msg| to_client_message(m);
        let mk_s = |m: &Msg| (to_response(m), None::<Instant>);
        let un_c = |i: ClientMessage<String>| match i {
            ClientMessage::Request(rq) => (Msg::Req { id: rq.id, body: rq.message, remaining: None, trace: from_tctx(&rq.context.trace_context) }, Some(rq.context.deadline)),
            ClientMessage::Cancel { trace_context, request_id } => (Msg::Cancel { id: request_id, trace: from_tctx(&trace_context) }, None),
            _ => unreachable!(),
        };
        let un_s = |i: Response<String>| {
            (
                Msg::Resp {
                    id: i.request_id,
                    body: match i.message {
                        Ok(b) => Ok(b),
                        Err(e) => Err((e.kind, e.detail)),
                    },
                },
                None::<Instant>,
            )
        };
        match (cfg.link, cfg.c2s) {
            (Link::Unbounded, true) => {
                let (c, s) = tarpc::transport::channel::unbounded::<Response<String>, ClientMessage<String>>();
                run_pair!(c, s, ClientMessage<String>, mk_c, un_c, Response<String>, mk_s, un_s)
            }
            (Link::Unbounded, false) => {
                let (c, s) = tarpc::transport::channel::unbounded::<Response<String>, ClientMessage<String>>();
                run_pair!(s, c, Response<String>, mk_s, un_s, ClientMessage<String>, mk_c, un_c)
            }
            (Link::Bounded(n), true) => {
                let (c, s) = tarpc::transport::channel::bounded::<Response<String>, ClientMessage<String>>(n);
                run_pair!(c, s, ClientMessage<String>, mk_c, un_c, Response<String>, mk_s, un_s)
            }
            (Link::Bounded(n), false) => {
                let (c, s) = tarpc::transport::channel::bounded::<Response<String>, ClientMessage<String>>(n);
                run_pair!(s, c, Response<String>, mk_s, un_s, ClientMessage<String>, mk_c, un_c)
            }
            (Link::Json, c2s) => {
                let (a, b) = frag_pipe(cfg.seed, cfg.max_chunk, cfg.pending_pct);
                if cfg.prebuffered {
                    let (wr, mut rdio) = if c2s { (a, b) } else { (b, a) };
                    wr.tx_handle().borrow_mut().buf.extend(GREETING.iter());
                    if cfg.seed & 1 == 0 {
                        rdio.max_chunk = 1 << 16; // the greeting and the first frames arrive in one read
                    }
                    if c2s {
                        let c = tarpc::serde_transport::new(Framed::new(wr, LengthDelimitedCodec::new()), tokio_serde::formats::Json::<Response<String>, ClientMessage<String>>::default());
                        let s = lazy_rd!(rdio, tokio_serde::formats::Json::<ClientMessage<String>, Response<String>>::default());
                        run_pair!(c, s, ClientMessage<String>, mk_c, un_c, Response<String>, mk_s, un_s)
                    } else {
                        let s = tarpc::serde_transport::new(Framed::new(wr, LengthDelimitedCodec::new()), tokio_serde::formats::Json::<ClientMessage<String>, Response<String>>::default());
                        let c = lazy_rd!(rdio, tokio_serde::formats::Json::<Response<String>, ClientMessage<String>>::default());
                        run_pair!(s, c, Response<String>, mk_s, un_s, ClientMessage<String>, mk_c, un_c)
                    }
                } else if cfg.seed & 2 == 0 {
                    // the other shipped constructor
                    let c = tarpc::serde_transport::Transport::from((a, tokio_serde::formats::Json::<Response<String>, ClientMessage<String>>::default()));
                    let s = tarpc::serde_transport::Transport::from((b, tokio_serde::formats::Json::<ClientMessage<String>, Response<String>>::default()));
                    if c2s {
                        run_pair!(c, s, ClientMessage<String>, mk_c, un_c, Response<String>, mk_s, un_s)
                    } else {
                        run_pair!(s, c, Response<String>, mk_s, un_s, ClientMessage<String>, mk_c, un_c)
                    }
                } else {
                    let c = tarpc::serde_transport::new(Framed::new(a, LengthDelimitedCodec::new()), tokio_serde::formats::Json::<Response<String>, ClientMessage<String>>::default());
                    let s = tarpc::serde_transport::new(Framed::new(b, LengthDelimitedCodec::new()), tokio_serde::formats::Json::<ClientMessage<String>, Response<String>>::default());
                    if c2s {
                        run_pair!(c, s, ClientMessage<String>, mk_c, un_c, Response<String>, mk_s, un_s)
                    } else {
                        run_pair!(s, c, Response<String>, mk_s, un_s, ClientMessage<String>, mk_c, un_c)
                    }
                }
            }
            (Link::Bincode, c2s) => {
                let (a, b) = frag_pipe(cfg.seed, cfg.max_chunk, cfg.pending_pct);
                if cfg.prebuffered {
                    let (wr, mut rdio) = if c2s { (a, b) } else { (b, a) };
                    wr.tx_handle().borrow_mut().buf.extend(GREETING.iter());
                    if cfg.seed & 1 == 0 {
                        rdio.max_chunk = 1 << 16;
                    }
                    if c2s {
                        let c = tarpc::serde_transport::new(Framed::new(wr, LengthDelimitedCodec::new()), tokio_serde::formats::Bincode::<Response<String>, ClientMessage<String>>::default());
                        let s = lazy_rd!(rdio, tokio_serde::formats::Bincode::<ClientMessage<String>, Response<String>>::default());
                        run_pair!(c, s, ClientMessage<String>, mk_c, un_c, Response<String>, mk_s, un_s)
                    } else {
                        let s = tarpc::serde_transport::new(Framed::new(wr, LengthDelimitedCodec::new()), tokio_serde::formats::Bincode::<ClientMessage<String>, Response<String>>::default());
                        let c = lazy_rd!(rdio, tokio_serde::formats::Bincode::<Response<String>, ClientMessage<String>>::default());
                        run_pair!(s, c, Response<String>, mk_s, un_s, ClientMessage<String>, mk_c, un_c)
                    }
                } else if cfg.seed & 2 == 0 {
                    // the other shipped constructor
                    let c = tarpc::serde_transport::Transport::from((a, tokio_serde::formats::Bincode::<Response<String>, ClientMessage<String>>::default()));
                    let s = tarpc::serde_transport::Transport::from((b, tokio_serde::formats::Bincode::<ClientMessage<String>, Response<String>>::default()));
                    if c2s {
                        run_pair!(c, s, ClientMessage<String>, mk_c, un_c, Response<String>, mk_s, un_s)
                    } else {
                        run_pair!(s, c, Response<String>, mk_s, un_s, ClientMessage<String>, mk_c, un_c)
                    }
                } else {
                    let c = tarpc::serde_transport::new(Framed::new(a, LengthDelimitedCodec::new()), tokio_serde::formats::Bincode::<Response<String>, ClientMessage<String>>::default());
                    let s = tarpc::serde_transport::new(Framed::new(b, LengthDelimitedCodec::new()), tokio_serde::formats::Bincode::<ClientMessage<String>, Response<String>>::default());
                    if c2s {
                        run_pair!(c, s, ClientMessage<String>, mk_c, un_c, Response<String>, mk_s, un_s)
                    } else {
                        run_pair!(s, c, Response<String>, mk_s, un_s, ClientMessage<String>, mk_c, un_c)
                    }
                }
            }
        }
    }));
    let name = format!("{:?}", cfg.link);
    match res {
        Err(p) => {
            out.viol("C15", "panic", format!("{name}: transport panicked: {}", panic_msg(&p)));
            return out;
        }
        Ok(Err(stall)) => {
            out.viol("C15", "stalled-or-no-end-of-stream", format!("{name} ({:?}): {stall}", cfg.end));
        }
        Ok(Ok(())) => {}
    }
    let got = got.borrow();
    let sent = sent_deadlines.borrow();
    // sequence equality
    if got.len() != msgs.len() {
        out.viol("C15", "item-count", format!("{name}: {} items written, {} read (end: {:?})", msgs.len(), got.len(), eos.take()));
    }
    for (k, (m, (g, gdl, t_rb, t_ra))) in msgs.iter().zip(got.iter()).enumerate() {
        let ok = match (m, g) {
            (Msg::Req { id: a, body: b, trace: t, .. }, Msg::Req { id: a2, body: b2, trace: t2, .. }) => a == a2 && b == b2 && t == t2,
            (Msg::Cancel { id: a, trace: t }, Msg::Cancel { id: a2, trace: t2 }) => a == a2 && t == t2,
            (Msg::Resp { id: a, body: Ok(b) }, Msg::Resp { id: a2, body: Ok(b2) }) => a == a2 && b == b2,
            (Msg::Resp { id: a, body: Err((k1, d1)) }, Msg::Resp { id: a2, body: Err((k2, d2)) }) => {
                if a == a2 && d1 == d2 && *k2 != expected_kind(*k1, serde) {
                    out.viol("C15", "error-kind", format!("{name}: error kind {k1:?} was read back as {k2:?} (expected {:?})", expected_kind(*k1, serde)));
                    true
                } else {
                    a == a2 && d1 == d2
                }
            }
            _ => false,
        };
        if !ok {
            let show = |m: &Msg| {
                let s = format!("{m:?}");
                if s.len() > 160 {
                    format!("{}…({} bytes)", &s[..160], s.len())
                } else {
                    s
                }
            };
            out.viol("C15", "item-altered-or-reordered", format!("{name}: item #{k} written as {} but read as {}", show(m), show(g)));
            break;
        }
        // deadlines (C07-style bracket) for requests
        if let (Some((Some(sd), s_b, s_a)), Some(gd)) = (sent.get(k), gdl) {
            if !serde {
                if gd != sd {
                    out.viol("C15", "deadline-changed-in-memory", format!("{name}: item #{k} deadline changed in an in-memory channel"));
                }
            } else {
                let lower = t_rb.saturating_duration_since(*s_a);
                let upper = t_ra.saturating_duration_since(*s_b);
                if *sd < *s_b {
                    // certainly expired when it was serialized: arrives as "now" (the decode instant)
                    if *gd > *t_ra || *gd < *t_rb {
                        out.viol("C15", "expired-deadline-not-now", format!("{name}: item #{k}: an already-passed deadline did not arrive as 'now'"));
                    }
                } else if *sd <= *s_a {
                    // expired somewhere inside the write bracket: either rule may apply
                } else if *gd < *sd {
                    out.viol("C15", "deadline-earlier", format!("{name}: item #{k}: deadline arrived {:?} earlier", *sd - *gd));
                } else if *gd - *sd > upper + Duration::from_nanos(1) || *gd - *sd + Duration::from_nanos(1) < lower {
                    out.viol("C15", "deadline-shift-out-of-bracket", format!("{name}: item #{k}: deadline shifted by {:?}, transit bracket [{lower:?}, {upper:?}]", *gd - *sd));
                }
            }
        }
    }
    if do_rev {
        for e in rev_err.borrow().iter() {
            out.viol("C15", "half-close-broke-reverse-direction", format!("{name}: after one end closed its writing side, {e}"));
        }
        let rg = rev_got.borrow();
        if rev_err.borrow().is_empty() && (rg.len() != rev.len() || rg.iter().zip(rev.iter()).any(|(g, m)| !msg_eq(m, g, serde))) {
            out.viol("C15", "half-close-broke-reverse-direction", format!("{name}: after one end closed its writing side the other wrote {} messages back, {} arrived{}", rev.len(), rg.len(), if rg.len() == rev.len() { " (altered)" } else { "" }));
        }
        out.cell(format!("C15.reverse-traffic-after-half-close.{}", name.replace(['(', ')'], "_")));
    }
    match eos.take() {
        Some(Ok(())) => {}
        Some(Err(e)) => out.viol("C15", "read-error", format!("{name}: the reading end reported an error: {e}")),
        None => {}
    }
    out.count("items_round_tripped", got.len() as u64);
    out.cell(format!("C15.{}.{}.{:?}", name.replace(['(', ')'], "_"), if cfg.c2s { "c2s" } else { "s2c" }, cfg.end));
    if serde {
        out.cell(format!("C15.frag.chunk{}.pending{}", if cfg.max_chunk == 1 { "1".to_string() } else if cfg.max_chunk < 64 { "small".into() } else { "large".into() }, if cfg.pending_pct > 0 { "yes" } else { "no" }));
    }
    if cfg.big {
        out.cell("C15.big-bodies");
    }
    if cfg.prebuffered {
        out.cell(format!("C15.reader-framed-used-before.{}", if cfg.seed & 1 == 0 { "coalesced" } else { "fragmented" }));
    }
    out.trace = vec![format!("{name} {} n={} chunk={} pend={}% end={:?}: {} items read, first: {}", if cfg.c2s { "c2s" } else { "s2c" }, cfg.n, cfg.max_chunk, cfg.pending_pct, cfg.end, got.len(), got.first().map(|g| { let s = format!("{:?}", g.0); s.chars().take(120).collect::<String>() }).unwrap_or_default())];
    let mut h = FNV0;
    fnv(&mut h, &format!("{name}{}{}{}{:?}{}", cfg.c2s, cfg.max_chunk.min(100), cfg.pending_pct, cfg.end, cfg.n));
    for m in msgs.iter().take(12) {
        fnv(&mut h, match m { Msg::Req { .. } => "r", Msg::Cancel { .. } => "c", Msg::Resp { body: Ok(_), .. } => "o", _ => "e" });
    }
    out.sig = h;
    if !got.is_empty() {
        out.nontrivial("C15");
    }
    let _ = drive2;
    out
}

/// every error kind through both codecs, and optional fields omitted (JSON)
pub fn c15_kinds_and_optionals() -> Outcome {
    let mut out = Outcome::default();
    out.desc = json!({"family": "S-codec", "case": "error kinds and optional fields"});
    let kinds = all_kinds();
    for k in kinds.iter() {
        let resp = Response::<String> { request_id: 5, message: Err(ServerError::new(*k, "d".into())) };
        // JSON
        let js = serde_json::to_vec(&resp).unwrap();
        let back: Response<String> = serde_json::from_slice(&js).unwrap();
        let bk = back.message.as_ref().unwrap_err().kind;
        if bk != expected_kind(*k, true) {
            out.viol("C15", "error-kind", format!("JSON: {k:?} read back as {bk:?}"));
        }
        // bincode exactly as the shipped codec is configured
        let mut codec = tokio_serde::formats::Bincode::<Response<String>, Response<String>>::default();
        use tokio_serde::{Deserializer, Serializer};
        let bytes = Pin::new(&mut codec).serialize(&resp).unwrap();
        let back: Response<String> = Pin::new(&mut codec).deserialize(&bytes::BytesMut::from(&bytes[..])).unwrap();
        let bk = back.message.as_ref().unwrap_err().kind;
        if bk != expected_kind(*k, true) {
            out.viol("C15", "error-kind", format!("bincode (shipped options): {k:?} read back as {bk:?}"));
        }
        out.count("error_kinds_checked", 1);
    }
    out.cell("C15.all-error-kinds");
    // optional fields
    let mut c = context::current();
    c.trace_context = tctx(&(77, 88, true));
    let cancel: ClientMessage<String> = ClientMessage::Cancel { trace_context: c.trace_context, request_id: 9 };
    let mut v: Value = serde_json::to_value(&cancel).unwrap();
    v["Cancel"].as_object_mut().unwrap().remove("trace_context");
    match serde_json::from_value::<ClientMessage<String>>(v) {
        Ok(ClientMessage::Cancel { request_id: 9, trace_context }) => {
            if trace_context != trace::Context::default() {
                out.viol("C15", "optional-trace-context", "omitted trace_context did not become the default".into());
            }
        }
        other => out.viol("C15", "optional-trace-context", format!("a Cancel without trace_context is not understood: {other:?}")),
    }
    out.cell("C15.cancel-without-trace-context");
    let req: ClientMessage<String> = ClientMessage::Request(Request { context: c, id: 3, message: "m".into() });
    let mut v: Value = serde_json::to_value(&req).unwrap();
    v["Request"]["context"].as_object_mut().unwrap().remove("deadline");
    let t0 = Instant::now();
    match serde_json::from_value::<ClientMessage<String>>(v) {
        Ok(ClientMessage::Request(r)) => {
            let t1 = Instant::now();
            let lo = t0 + Duration::from_secs(10);
            let hi = t1 + Duration::from_secs(10);
            if r.context.deadline < lo || r.context.deadline > hi {
                out.viol("C07", "default-deadline", format!("a request without a deadline got {:?} from now instead of the documented 10 s", r.context.deadline.saturating_duration_since(t0)));
                out.viol("C15", "optional-deadline", "a request without a deadline did not get the 10 s default".into());
            }
            if r.id != 3 || r.message != "m" {
                out.viol("C15", "optional-deadline", "other fields altered".into());
            }
        }
        other => out.viol("C15", "optional-deadline", format!("a Request without deadline is not understood: {:?}", other.map(|_| ()))),
    }
    out.cell("C15.request-without-deadline");
    out.nontrivial("C15");
    out.nontrivial("C07");
    out.sig = 0x0517;
    out.trace = vec![format!("{} error kinds through JSON and bincode; Cancel without trace_context; Request without deadline", kinds.len())];
    out
}

// =========================================================================================
// C16: hostile bytes against both framed decoders, both directions

fn valid_frames(r: &mut Rng, json: bool, c2s: bool, n: usize) -> Vec<Vec<u8>> {
    use tokio_serde::Serializer;
    let msgs = if c2s { gen_c2s(r, n, false) } else { gen_s2c(r, n, false) };
    msgs.iter()
        .map(|m| {
            let payload: Vec<u8> = if c2s {
                let (cm, _) = to_client_message(m);
                if json {
                    serde_json::to_vec(&cm).unwrap()
                } else {
                    let mut codec = tokio_serde::formats::Bincode::<ClientMessage<String>, ClientMessage<String>>::default();
                    Pin::new(&mut codec).serialize(&cm).unwrap().to_vec()
                }
            } else {
                let rs = to_response(m);
                if json {
                    serde_json::to_vec(&rs).unwrap()
                } else {
                    let mut codec = tokio_serde::formats::Bincode::<Response<String>, Response<String>>::default();
                    Pin::new(&mut codec).serialize(&rs).unwrap().to_vec()
                }
            };
            let mut f = (payload.len() as u32).to_be_bytes().to_vec();
            f.extend(payload);
            f
        })
        .collect()
}

fn mutate(r: &mut Rng, frames: &[Vec<u8>]) -> Vec<u8> {
    let mut bytes: Vec<u8> = frames.concat();
    let nm = 1 + r.below(4);
    for _ in 0..nm {
        if bytes.is_empty() {
            break;
        }
        match r.below(7) {
            0 => {
                let i = r.below(bytes.len());
                bytes[i] ^= 1 << r.below(8);
            }
            1 => {
                let i = r.below(bytes.len());
                bytes.truncate(i);
            }
            2 => {
                // edit a length field (first 4 bytes of some frame)
                let mut off = 0;
                let k = r.below(frames.len().max(1));
                for f in frames.iter().take(k) {
                    off += f.len();
                }
                if off + 4 <= bytes.len() {
                    let v: u32 = *r.pick(&[0u32, 1, 3, 0x7fff_ffff, 0xffff_ffff, 8 * 1024 * 1024, 8 * 1024 * 1024 + 1, 100]);
                    bytes[off..off + 4].copy_from_slice(&v.to_be_bytes());
                }
            }
            3 => {
                let i = r.below(bytes.len());
                let j = r.below(bytes.len());
                let (a, b) = (i.min(j), i.max(j));
                let chunk: Vec<u8> = bytes[a..b].to_vec();
                let at = r.below(bytes.len());
                bytes.splice(at..at, chunk);
            }
            4 => {
                let i = r.below(bytes.len());
                let n = r.below(9);
                for k in 0..n {
                    if i + k < bytes.len() {
                        bytes[i + k] = *r.pick(&[0u8, 0xff, 0x80, 0x7f, b'"', b'{', b'9']);
                    }
                }
            }
            5 => {
                let i = r.below(bytes.len());
                let n = 1 + r.below(16);
                let ins: Vec<u8> = (0..n).map(|_| r.next() as u8).collect();
                bytes.splice(i..i, ins);
            }
            _ => {
                let n = r.below(64);
                bytes = (0..n).map(|_| r.next() as u8).collect();
            }
        }
    }
    bytes
}

/// Feeds `bytes` to a real endpoint over the serde transport; returns (panic message, items served)
pub fn c16_bytes_case(seed: u64) -> Outcome {
    let mut out = Outcome::default();
    let mut r = Rng::new(seed);
    let json = r.chance(1, 2);
    let to_server = r.chance(1, 2);
    let n = 1 + r.below(5);
    let frames = valid_frames(&mut r, json, to_server, n);
    let hostile = mutate(&mut r, &frames);
    // a well-formed probe after the hostile bytes is only meaningful if the stream stays in sync; we
    // only require "no panic" here
    out.desc = json!({"family": "S-codec", "case": "hostile-bytes", "seed": seed, "codec": if json { "json" } else { "bincode" }, "target": if to_server { "server" } else { "client" }, "bytes": hostile.len()});
    let max_chunk = *r.pick(&[1usize, 3, 64, 4096]);
    let res = catch_unwind(AssertUnwindSafe(|| {
        let rt = tokio::runtime::Builder::new_current_thread().enable_time().start_paused(true).build().unwrap();
        rt.block_on(async {
            let (mut a, b) = frag_pipe(seed, max_chunk, 0);
            let _ = a.write_all(&hostile).await;
            let _ = a.shutdown().await;
            let mut served = 0u64;
            if to_server {
                use tarpc::server::{BaseChannel, Channel};
                macro_rules! serve_on {
                    ($t:expr) => {{
                        let ch = BaseChannel::with_defaults($t);
                        let mut reqs = Box::pin(ch.requests());
                        let mut guard = 0;
                        while let Some(item) = tokio::time::timeout(Duration::from_secs(3600), reqs.next()).await.ok().flatten() {
                            guard += 1;
                            match item {
                                Ok(req) => {
                                    served += 1;
                                    drop(req);
                                }
                                Err(_) => break,
                            }
                            if guard > 1000 {
                                break;
                            }
                        }
                    }};
                }
                if json {
                    serve_on!(tarpc::serde_transport::new(Framed::new(b, LengthDelimitedCodec::new()), tokio_serde::formats::Json::<ClientMessage<String>, Response<String>>::default()));
                } else {
                    serve_on!(tarpc::serde_transport::new(Framed::new(b, LengthDelimitedCodec::new()), tokio_serde::formats::Bincode::<ClientMessage<String>, Response<String>>::default()));
                }
            } else {
                macro_rules! client_on {
                    ($t:expr) => {{
                        let nc = tarpc::client::new::<String, String, _>(tarpc::client::Config::default(), $t);
                        let client = nc.client;
                        let disp = nc.dispatch;
                        let call = async {
                            let mut ctx = context::current();
                            ctx.deadline = Instant::now() + Duration::from_secs(5);
                            let _ = client.call(ctx, "probe".to_string()).await;
                        };
                        let d = async {
                            let _ = disp.await;
                        };
                        let _ = tokio::time::timeout(Duration::from_secs(3600), futures::future::join(call, d)).await;
                        served += 1;
                    }};
                }
                if json {
                    client_on!(tarpc::serde_transport::new(Framed::new(b, LengthDelimitedCodec::new()), tokio_serde::formats::Json::<Response<String>, ClientMessage<String>>::default()));
                } else {
                    client_on!(tarpc::serde_transport::new(Framed::new(b, LengthDelimitedCodec::new()), tokio_serde::formats::Bincode::<Response<String>, ClientMessage<String>>::default()));
                }
            }
            served
        })
    }));
    match res {
        Err(p) => out.viol("C16", "panic", format!("{} endpoint panicked on hostile {} bytes: {}", if to_server { "server" } else { "client" }, if json { "JSON" } else { "bincode" }, panic_msg(&p))),
        Ok(served) => out.count("items_served_from_hostile_streams", served),
    }
    out.cell(format!("C16.bytes.{}.{}", if json { "json" } else { "bincode" }, if to_server { "server" } else { "client" }));
    out.sig = mix(seed, hostile.len() as u64);
    out.nontrivial("C16");
    out.trace = vec![format!("hostile {} bytes ({}) to {}", hostile.len(), if json { "json" } else { "bincode" }, if to_server { "server" } else { "client" })];
    out
}

/// "malformed or truncated frames end that connection with an error": `nvalid` well-formed frames,
/// then one frame that certainly cannot be decoded (or is cut short by end-of-stream). The endpoint
/// must report a read error - not a clean end of stream, not silence.
/// target: 0 server `requests()`, 1 server behind the request limiter *at its limit*, 2 server behind
/// the limiter below its limit, 3 the channel's own Stream (raw), 4 client dispatch.
pub fn c16_malformed_case(kind: u8, json: bool, target: u8, nvalid: usize) -> Outcome {
    use tarpc::server::{BaseChannel, Channel};
    let mut out = Outcome::default();
    let kname = ["undecodable-payload", "truncated-header", "truncated-body"][kind as usize % 3];
    let tname = ["server.requests", "server.limiter-at-limit", "server.limiter-below-limit", "server.raw-stream", "client"][target as usize % 5];
    out.desc = json!({"family": "S-codec", "case": "malformed-frame", "kind": kname, "codec": if json { "json" } else { "bincode" }, "target": tname, "valid_frames_before": nvalid});
    let to_server = target != 4;
    // well-formed prefix: requests with fresh ids and far deadlines / responses
    let mut bytes: Vec<u8> = vec![];
    {
        use tokio_serde::Serializer;
        for k in 0..nvalid {
            let payload: Vec<u8> = if to_server {
                let mut ctx = context::current();
                ctx.deadline = Instant::now() + Duration::from_secs(100_000);
                let cm = ClientMessage::Request(tarpc::Request { context: ctx, id: 100 + k as u64, message: format!("v{k}") });
                if json {
                    serde_json::to_vec(&cm).unwrap()
                } else {
                    let mut codec = tokio_serde::formats::Bincode::<ClientMessage<String>, ClientMessage<String>>::default();
                    Pin::new(&mut codec).serialize(&cm).unwrap().to_vec()
                }
            } else {
                let rs = Response { request_id: 5000 + k as u64, message: Ok::<String, ServerError>(format!("v{k}")) };
                if json {
                    serde_json::to_vec(&rs).unwrap()
                } else {
                    let mut codec = tokio_serde::formats::Bincode::<Response<String>, Response<String>>::default();
                    Pin::new(&mut codec).serialize(&rs).unwrap().to_vec()
                }
            };
            bytes.extend((payload.len() as u32).to_be_bytes());
            bytes.extend(payload);
        }
    }
    match kind % 3 {
        0 => {
            // a complete frame whose payload is no message in either codec
            let payload: &[u8] = if json { b"{\"Request\": 12" } else { &[0xFF, 0xFF, 0xFF, 0xFF, 0xFF, 0xFF, 0xFF, 0xFF, 0xFF] };
            bytes.extend((payload.len() as u32).to_be_bytes());
            bytes.extend(payload);
        }
        1 => bytes.extend([0u8, 0]), // half a length header, then end-of-stream
        _ => {
            bytes.extend(40u32.to_be_bytes());
            bytes.extend([b'{'; 7]); // 7 of 40 announced bytes, then end-of-stream
        }
    }
    let limit = match target {
        1 => Some(nvalid),
        2 => Some(nvalid + 2),
        _ => None,
    };
    #[derive(Debug)]
    enum End {
        ReadError,
        OtherError(String),
        Clean,
        Silent,
    }
    let res = catch_unwind(AssertUnwindSafe(|| {
        let rt = tokio::runtime::Builder::new_current_thread().enable_time().start_paused(true).build().unwrap();
        rt.block_on(async {
            let (mut a, b) = frag_pipe(nvalid as u64 * 31 + kind as u64, 4096, 0);
            let _ = a.write_all(&bytes).await;
            let _ = a.shutdown().await;
            macro_rules! drive {
                ($stream:expr) => {{
                    let mut st = Box::pin($stream);
                    let mut held = vec![];
                    let mut yielded = 0usize;
                    let end = loop {
                        match tokio::time::timeout(Duration::from_secs(60), st.next()).await {
                            Err(_) => break End::Silent,
                            Ok(None) => break End::Clean,
                            Ok(Some(Ok(x))) => {
                                yielded += 1;
                                held.push(x); // kept alive: the requests stay in flight
                                if yielded > nvalid + 4 {
                                    break End::OtherError("more requests yielded than were sent".into());
                                }
                            }
                            Ok(Some(Err(e))) => break if matches!(e, tarpc::ChannelError::Read(_)) { End::ReadError } else { End::OtherError(format!("{e:?}")) },
                        }
                    };
                    (end, yielded)
                }};
            }
            macro_rules! on_transport {
                ($t:expr) => {{
                    let ch = BaseChannel::with_defaults($t);
                    match (target, limit) {
                        (3, _) => drive!(ch),
                        (_, Some(l)) => drive!(ch.max_concurrent_requests(l).requests()),
                        _ => drive!(ch.requests()),
                    }
                }};
            }
            if to_server {
                if json {
                    on_transport!(tarpc::serde_transport::new(Framed::new(b, LengthDelimitedCodec::new()), tokio_serde::formats::Json::<ClientMessage<String>, Response<String>>::default()))
                } else {
                    on_transport!(tarpc::serde_transport::new(Framed::new(b, LengthDelimitedCodec::new()), tokio_serde::formats::Bincode::<ClientMessage<String>, Response<String>>::default()))
                }
            } else {
                macro_rules! client_on {
                    ($t:expr) => {{
                        let nc = tarpc::client::new::<String, String, _>(tarpc::client::Config::default(), $t);
                        let _client = nc.client; // kept alive: the dispatch may only end because of the read error
                        match tokio::time::timeout(Duration::from_secs(60), nc.dispatch).await {
                            Err(_) => (End::Silent, 0usize),
                            Ok(Ok(())) => (End::Clean, 0),
                            Ok(Err(e)) => (if matches!(e, tarpc::ChannelError::Read(_)) { End::ReadError } else { End::OtherError(format!("{e:?}")) }, 0),
                        }
                    }};
                }
                if json {
                    client_on!(tarpc::serde_transport::new(Framed::new(b, LengthDelimitedCodec::new()), tokio_serde::formats::Json::<Response<String>, ClientMessage<String>>::default()))
                } else {
                    client_on!(tarpc::serde_transport::new(Framed::new(b, LengthDelimitedCodec::new()), tokio_serde::formats::Bincode::<Response<String>, ClientMessage<String>>::default()))
                }
            }
        })
    }));
    match res {
        Err(p) => out.viol("C16", "panic", format!("{tname} panicked on a {kname} frame: {}", panic_msg(&p))),
        Ok((End::ReadError, y)) => {
            if to_server && y != nvalid {
                out.viol("C16", "well-formed-prefix-not-served", format!("{tname}: {nvalid} well-formed requests preceded the {kname} frame, {y} were handed to the application"));
            }
        }
        Ok((End::Clean, _)) => out.viol("C16", "malformed-frame-clean-end", format!("{tname} ({}): a {kname} frame after {nvalid} well-formed ones ended the connection as a clean end of stream, not with an error", if json { "JSON" } else { "bincode" })),
        Ok((End::Silent, _)) => out.viol("C16", "malformed-frame-ignored", format!("{tname} ({}): 60 s after a {kname} frame the connection has neither failed nor ended", if json { "JSON" } else { "bincode" })),
        Ok((End::OtherError(e), _)) => out.viol("C16", "malformed-frame-wrong-error", format!("{tname}: a {kname} frame produced {e}, expected a read error")),
    }
    out.cell(format!("C16.malformed.{kname}.{tname}"));
    out.sig = 0xC16_3000 + ((kind as u64) << 8) + ((target as u64) << 4) + ((json as u64) << 3) + nvalid as u64;
    out.nontrivial("C16");
    out.trace = vec![format!("{nvalid} valid frames then a {kname} frame to {tname}")];
    out
}

/// wire-level boundary deadlines (durations no Instant can hold) sent to a real server over JSON / bincode,
/// followed by a well-formed probe that must still be served
pub fn c16_wire_deadline_case(k: usize, json: bool) -> Outcome {
    let mut out = Outcome::default();
    let secs: [u64; 14] = [0, 1, 2 * 31_536_000, 3 * 31_536_000, 100 * 31_536_000, 10_000 * 31_536_000, u64::MAX / 4, i64::MAX as u64, i64::MAX as u64 - 1, u64::MAX, u64::MAX - 1, 1 << 62, 9_223_372_036, 253_402_300_800];
    let nanos: [u32; 3] = [0, 999_999_999, 1];
    let s = secs[k % secs.len()];
    let n = nanos[(k / secs.len()) % nanos.len()];
    out.desc = json!({"family": "S-codec", "case": "wire-deadline", "secs": s, "nanos": n, "codec": if json { "json" } else { "bincode" }});
    let res = catch_unwind(AssertUnwindSafe(|| {
        let rt = tokio::runtime::Builder::new_current_thread().enable_time().start_paused(true).build().unwrap();
        rt.block_on(async {
            let (mut a, b) = frag_pipe(k as u64, 4096, 0);
            let mut c = context::current();
            c.deadline = Instant::now() + Duration::from_secs(10);
            let odd: ClientMessage<String> = ClientMessage::Request(Request { context: c, id: 1, message: "odd".into() });
            let probe: ClientMessage<String> = ClientMessage::Request(Request { context: c, id: 2, message: "probe".into() });
            let mut frames: Vec<u8> = vec![];
            let mut push = |p: Vec<u8>| {
                frames.extend((p.len() as u32).to_be_bytes());
                frames.extend(p);
            };
            if json {
                let mut v: Value = serde_json::to_value(&odd).unwrap();
                v["Request"]["context"]["deadline"] = json!({"secs": s, "nanos": n});
                push(serde_json::to_vec(&v).unwrap());
                push(serde_json::to_vec(&probe).unwrap());
            } else {
                // bincode with the shipped options: re-encode with a mirror struct carrying a raw duration
                #[derive(serde::Serialize)]
                struct RawCtx {
                    deadline: Duration,
                    trace_context: trace::Context,
                }
                #[derive(serde::Serialize)]
                struct RawReq {
                    context: RawCtx,
                    id: u64,
                    message: String,
                }
                #[derive(serde::Serialize)]
                enum RawMsg {
                    Request(RawReq),
                }
                use bincode::Options;
                let raw = RawMsg::Request(RawReq { context: RawCtx { deadline: Duration::new(s, n), trace_context: c.trace_context }, id: 1, message: "odd".into() });
                push(bincode::options().serialize(&raw).unwrap());
                let mut codec = tokio_serde::formats::Bincode::<ClientMessage<String>, ClientMessage<String>>::default();
                use tokio_serde::Serializer;
                push(Pin::new(&mut codec).serialize(&probe).unwrap().to_vec());
            }
            let _ = a.write_all(&frames).await;
            let _ = a.shutdown().await;
            use tarpc::server::{BaseChannel, Channel};
            let mut seen: Vec<String> = vec![];
            macro_rules! serve_on {
                ($t:expr) => {{
                    let ch = BaseChannel::with_defaults($t);
                    let mut reqs = Box::pin(ch.requests());
                    while let Ok(Some(item)) = tokio::time::timeout(Duration::from_secs(1), reqs.next()).await {
                        match item {
                            Ok(req) => {
                                seen.push(req.get().message.clone());
                                drop(req);
                            }
                            Err(e) => {
                                seen.push(format!("ERR:{e}"));
                                break;
                            }
                        }
                    }
                }};
            }
            if json {
                serve_on!(tarpc::serde_transport::new(Framed::new(b, LengthDelimitedCodec::new()), tokio_serde::formats::Json::<ClientMessage<String>, Response<String>>::default()));
            } else {
                serve_on!(tarpc::serde_transport::new(Framed::new(b, LengthDelimitedCodec::new()), tokio_serde::formats::Bincode::<ClientMessage<String>, Response<String>>::default()));
            }
            seen
        })
    }));
    match res {
        Err(p) => out.viol("C16", "panic", format!("server panicked on a request whose wire deadline is {s}s+{n}ns ({}): {}", if json { "JSON" } else { "bincode" }, panic_msg(&p))),
        Ok(seen) => {
            // well-formed but odd => still serving; a decode error (malformed) may end the connection
            let decoded_odd = seen.iter().any(|x| x == "odd");
            if decoded_odd && !seen.iter().any(|x| x == "probe") {
                out.viol("C16", "probe-not-served", format!("after a well-formed request with wire deadline {s}s+{n}ns the probe request was not served: {seen:?}"));
            }
            out.trace = vec![format!("wire deadline {s}s+{n}ns ({}): server saw {seen:?}", if json { "json" } else { "bincode" })];
            if decoded_odd {
                out.cell("C16.wire-deadline.accepted");
            } else {
                out.cell("C16.wire-deadline.rejected-as-malformed");
            }
        }
    }
    out.sig = mix(k as u64, json as u64 + 17);
    out.nontrivial("C16");
    out
}

/// A well-formed error response whose numeric error-kind code is `code` reaches a real client
/// (dispatch + call) over the serde transport: nothing may panic, the call must resolve with a
/// server error, and the connection must keep serving a second call.
pub fn c16_kind_code_case(code: u32, json: bool) -> Outcome {
    use tokio::io::AsyncReadExt;
    let mut out = Outcome::default();
    out.desc = json!({"family": "S-codec", "case": "error-kind code", "code": code, "codec": if json { "json" } else { "bincode" }});
    let res = catch_unwind(AssertUnwindSafe(|| {
        let rt = tokio::runtime::Builder::new_current_thread().enable_time().start_paused(true).build().unwrap();
        rt.block_on(async {
            let (mut a, b) = frag_pipe(code as u64, 4096, 0);
            let frame_for = |id: u64, code: u32| -> Vec<u8> {
                let payload = if json {
                    serde_json::to_vec(&json!({"request_id": id, "message": {"Err": {"kind": code, "detail": format!("d{id}")}}})).unwrap()
                } else {
                    #[derive(serde::Serialize)]
                    struct RawErr {
                        kind: u32,
                        detail: String,
                    }
                    #[derive(serde::Serialize)]
                    struct RawResp {
                        request_id: u64,
                        message: Result<String, RawErr>,
                    }
                    use bincode::Options;
                    bincode::options().serialize(&RawResp { request_id: id, message: Err(RawErr { kind: code, detail: format!("d{id}") }) }).unwrap()
                };
                let mut f = (payload.len() as u32).to_be_bytes().to_vec();
                f.extend(payload);
                f
            };
            macro_rules! go {
                ($t:expr) => {{
                    let nc = tarpc::client::new::<String, String, _>(tarpc::client::Config::default(), $t);
                    let client = nc.client;
                    let dispatch = nc.dispatch;
                    let calls = async move {
                        let mut ctx = context::current();
                        ctx.deadline = Instant::now() + Duration::from_secs(30);
                        let r1 = client.call(ctx, "one".to_string()).await;
                        let r2 = client.call(ctx, "two".to_string()).await;
                        drop(client);
                        (r1, r2)
                    };
                    let responder = async {
                        for id in 0..2u64 {
                            let mut len = [0u8; 4];
                            if a.read_exact(&mut len).await.is_err() {
                                break;
                            }
                            let mut body = vec![0u8; u32::from_be_bytes(len) as usize];
                            if a.read_exact(&mut body).await.is_err() {
                                break;
                            }
                            // the odd code first, a plain one for the probe call
                            let _ = a.write_all(&frame_for(id, if id == 0 { code } else { 16 })).await;
                        }
                    };
                    let d = async {
                        let _ = dispatch.await;
                    };
                    tokio::time::timeout(Duration::from_secs(3600), futures::future::join3(calls, responder, d)).await.map(|x| x.0)
                }};
            }
            if json {
                go!(tarpc::serde_transport::new(Framed::new(b, LengthDelimitedCodec::new()), tokio_serde::formats::Json::<Response<String>, ClientMessage<String>>::default()))
            } else {
                go!(tarpc::serde_transport::new(Framed::new(b, LengthDelimitedCodec::new()), tokio_serde::formats::Bincode::<Response<String>, ClientMessage<String>>::default()))
            }
        })
    }));
    match res {
        Err(p) => out.viol("C16", "panic", format!("client endpoint panicked on a response with error-kind code {code} ({}): {}", if json { "JSON" } else { "bincode" }, panic_msg(&p))),
        Ok(Err(_)) => out.viol("C16", "probe-not-served", format!("after a response with error-kind code {code} the calls did not complete")),
        Ok(Ok((r1, r2))) => {
            match &r1 {
                Err(tarpc::client::RpcError::Server(e)) => {
                    let want = if (code as usize) < PORTABLE.len() { PORTABLE[code as usize] } else { io::ErrorKind::Other };
                    if e.kind != want {
                        out.viol("C15", "error-kind-code", format!("error-kind code {code} decoded as {:?}, expected {want:?}", e.kind));
                    }
                }
                other => out.viol("C16", "odd-message-broke-connection", format!("a well-formed response with error-kind code {code} made the call resolve with {:?}", other.as_ref().map_err(|e| e.to_string()))),
            }
            if !matches!(r2, Err(tarpc::client::RpcError::Server(_))) {
                out.viol("C16", "probe-not-served", format!("after a response with error-kind code {code} the next call resolved with {:?}", r2.as_ref().map_err(|e| e.to_string())));
            }
            out.cell("C16.kind-code.served");
        }
    }
    out.sig = mix(code as u64, json as u64 + 99);
    out.nontrivial("C16");
    out.trace = vec![format!("response with error-kind code {code} over {} to a real client; probe call afterwards", if json { "json" } else { "bincode" })];
    out
}
