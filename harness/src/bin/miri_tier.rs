//! Reduced cross-thread workload for the Miri tier (undefined behaviour / data races in the
//! dependency code reached through tarpc, weak-memory outcomes of the Relaxed counters).
//! Run with: cargo +nightly miri run --bin miri_tier   (MIRIFLAGS=-Zmiri-disable-isolation ...)
use futures::{prelude::*, task::noop_waker_ref};
use std::{
    sync::{
        atomic::{AtomicU64, Ordering},
        Arc, Mutex,
    },
    task::Context,
    time::{Duration, Instant},
};
use tarpc::{
    client::{self, stub::load_balance::RoundRobin, stub::Stub, RpcError},
    context,
    server::{BaseChannel, Channel},
    ClientMessage, Response,
};

#[derive(Clone)]
struct Count(usize, Arc<Vec<AtomicU64>>);
impl Stub for Count {
    type Req = u64;
    type Resp = usize;
    async fn call(&self, _: context::Context, _r: u64) -> Result<usize, RpcError> {
        self.1[self.0].fetch_add(1, Ordering::Relaxed);
        Ok(self.0)
    }
}

fn main() {
    let threads = 3usize;
    let per = 3usize;
    let mut problems: Vec<String> = vec![];
    // ---- (1) cross-thread client/server
    let wire: Arc<Mutex<Vec<String>>> = Arc::new(Mutex::new(vec![]));
    let (ct, st) = tarpc::transport::channel::unbounded::<Response<String>, ClientMessage<String>>();
    let nc = client::new::<String, String, _>(client::Config::default(), ct);
    let client = nc.client;
    let dispatch = nc.dispatch;
    let w2 = wire.clone();
    let server_thread = std::thread::spawn(move || {
        let rt = tokio::runtime::Builder::new_current_thread().enable_time().build().unwrap();
        rt.block_on(async move {
            let w3 = w2.clone();
            let server = BaseChannel::with_defaults(st)
                .execute(tarpc::server::serve(move |_ctx, req: String| {
                    let w = w3.clone();
                    async move {
                        w.lock().unwrap().push(format!("handled {req}"));
                        tokio::task::yield_now().await;
                        Ok(format!("echo({req})"))
                    }
                }))
                .for_each(|f| async move {
                    tokio::spawn(f);
                });
            tokio::spawn(server);
            dispatch.await.map_err(|e| e.to_string())
        })
    });
    let results: Arc<Mutex<Vec<(String, Result<String, String>)>>> = Arc::new(Mutex::new(vec![]));
    let mut hs = vec![];
    for t in 0..threads {
        let c = client.clone();
        let res = results.clone();
        hs.push(std::thread::spawn(move || {
            for i in 0..per {
                let body = format!("t{t}c{i}");
                let mut ctx = context::current();
                ctx.deadline = Instant::now() + Duration::from_secs(3600);
                if t == 0 && i == 1 {
                    // abandon after the first poll: the guard's drop races with the dispatch thread
                    let mut fut = Box::pin(c.call(ctx, body.clone()));
                    let _ = fut.as_mut().poll(&mut Context::from_waker(noop_waker_ref()));
                    drop(fut);
                    res.lock().unwrap().push((body, Err("abandoned".into())));
                } else {
                    let r = futures::executor::block_on(c.call(ctx, body.clone()));
                    res.lock().unwrap().push((body, r.map_err(|e| e.to_string())));
                }
            }
        }));
    }
    for h in hs {
        h.join().unwrap();
    }
    drop(client);
    match server_thread.join() {
        Ok(Ok(())) => {}
        other => problems.push(format!("dispatch ended with {other:?}")),
    }
    for (body, r) in results.lock().unwrap().iter() {
        match r {
            Ok(v) if *v == format!("echo({body})") => {}
            Err(e) if e == "abandoned" => {}
            other => problems.push(format!("call {body} -> {other:?}")),
        }
    }
    // ---- (2) round-robin stub shared by threads
    let nb = 3;
    let counts = Arc::new((0..nb).map(|_| AtomicU64::new(0)).collect::<Vec<_>>());
    let rr = RoundRobin::new((0..nb).map(|i| Count(i, counts.clone())).collect());
    let mut hs = vec![];
    for _ in 0..threads {
        let rr = rr.clone();
        hs.push(std::thread::spawn(move || {
            for i in 0..4 {
                let _ = futures::executor::block_on(rr.call(context::current(), i));
            }
        }));
    }
    for h in hs {
        h.join().unwrap();
    }
    let v: Vec<u64> = counts.iter().map(|c| c.load(Ordering::SeqCst)).collect();
    let (mn, mx) = (*v.iter().min().unwrap(), *v.iter().max().unwrap());
    if mx - mn > 1 || v.iter().sum::<u64>() != (threads * 4) as u64 {
        problems.push(format!("round-robin counts {v:?}"));
    }
    if problems.is_empty() {
        println!("MIRI-TIER OK calls={} handled={} rr={v:?}", threads * per, wire.lock().unwrap().len());
    } else {
        println!("MIRI-TIER VIOLATION {problems:?}");
        std::process::exit(1);
    }
}
