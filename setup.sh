#!/bin/bash
# Builds the verification harness from files on disk only (offline).
set -e
cd "$(dirname "$0")/harness"
export CARGO_NET_OFFLINE=true
cp /repo/Cargo.lock ./Cargo.lock
cargo build --release --offline 2>&1 | tail -3
